//go:build verif
// +build verif

package sqlittle_test

// Demonstration for C08 mutation 3: RLock() validates the header (and decides
// about the caches) before it takes the SHARED lock. A writer which commits
// between those two steps goes unnoticed for the whole read transaction.
//
// Run from the worktree root:
//   cp /tmp/mut3/C08.out/3/mut_c08_3_test.go . && go test -tags verif -vet=off -count=1 -run TestMutC08LockWindow .

import (
	"os/exec"
	"path/filepath"
	"testing"

	"github.com/alicebob/sqlittle"
	sdb "github.com/alicebob/sqlittle/db"
)

func c08py3(t *testing.T, file, script string) string {
	t.Helper()
	cmd := exec.Command("python3", "-c", `
import sqlite3, sys
c = sqlite3.connect(sys.argv[1], isolation_level=None)
for stmt in sys.argv[2].split(";;"):
    for row in c.execute(stmt):
        print("|".join(str(v) for v in row))
c.close()
`, file, script)
	out, err := cmd.Output()
	if err != nil {
		t.Fatalf("python/sqlite: %v", err)
	}
	return string(out)
}

// the real file pager, with a hook which runs right before the SHARED lock is
// requested from the OS.
type c08LockHook struct {
	*sdb.VerifFilePager
	beforeLock func()
}

func (p *c08LockHook) RLock() error {
	if f := p.beforeLock; f != nil {
		p.beforeLock = nil
		f()
	}
	return p.VerifFilePager.RLock()
}

func TestMutC08LockWindow(t *testing.T) {
	file := filepath.Join(t.TempDir(), "win.sqlite")
	c08py3(t, file, `CREATE TABLE t (id INTEGER PRIMARY KEY, v TEXT);;
INSERT INTO t VALUES (1, 'old'), (2, 'old')`)

	fp, err := sdb.VerifNewFilePager(file)
	if err != nil {
		t.Fatal(err)
	}
	pager := &c08LockHook{VerifFilePager: fp}
	low, err := sdb.VerifOpenPager(pager, file+"-journal")
	if err != nil {
		t.Fatal(err)
	}
	defer low.Close()
	db := sqlittle.VerifWrap(low)

	read := func() string {
		s := ""
		if err := db.Select("t", func(r sqlittle.Row) {
			var id int64
			var v string
			if err := r.Scan(&id, &v); err != nil {
				t.Fatal(err)
			}
			s += v + "\n"
		}, "id", "v"); err != nil {
			t.Fatal(err)
		}
		return s
	}

	if have, want := read(), "old\nold\n"; have != want {
		t.Fatalf("first read: have %q, want %q", have, want)
	}

	// another connection commits at the moment our handle is about to take
	// its read lock
	pager.beforeLock = func() {
		c08py3(t, file, `UPDATE t SET v = 'new'`)
	}
	have := read()
	want := c08py3(t, file, "SELECT v FROM t ORDER BY id")
	if have != want {
		t.Fatalf("read transaction started after the commit: have %q, SQLite has %q", have, want)
	}
}
