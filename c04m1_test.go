package sqlittle_test

// Demonstration for mutation 1 (C04): rowid lookups of rows whose rowid is
// stored as a 9-byte varint.
//
// Needs c04m1.sqlite (made by mkdb.py) in the same directory.

import (
	"strconv"
	"testing"

	"github.com/alicebob/sqlittle"
)

func c04m1IDs() []int64 {
	var ids []int64
	for i := int64(-300); i < -100; i++ {
		ids = append(ids, i)
	}
	ids = append(ids, 1, 2, 3, 127, 128, 16384)
	const min = -1 << 63
	const max = 1<<63 - 1
	ids = append(ids, min, min+1, min+200, 1<<56-1, 1<<56, 1<<56+5, 1<<56+200, max-1, max)
	return ids
}

func TestC04M1(t *testing.T) {
	db, err := sqlittle.Open("c04m1.sqlite")
	if err != nil {
		t.Fatal(err)
	}
	defer db.Close()

	present := map[int64]bool{}
	for _, id := range c04m1IDs() {
		present[id] = true
	}

	check := func(id int64) {
		t.Helper()
		row, err := db.SelectRowid("t", id, "id", "v")
		if err != nil {
			t.Errorf("SelectRowid(%d): %s", id, err)
			return
		}
		var pkRows []sqlittle.Row
		if err := db.PKSelect("t", sqlittle.Key{id}, func(r sqlittle.Row) {
			pkRows = append(pkRows, r)
		}, "id", "v"); err != nil {
			t.Errorf("PKSelect(%d): %s", id, err)
			return
		}
		if !present[id] {
			if row != nil {
				t.Errorf("SelectRowid(%d): absent rowid gives row %v", id, row)
			}
			if len(pkRows) != 0 {
				t.Errorf("PKSelect(%d): absent rowid gives rows %v", id, pkRows)
			}
			return
		}
		if row == nil {
			t.Errorf("SelectRowid(%d): present rowid not found", id)
			return
		}
		var gotID int64
		var gotV string
		if err := row.Scan(&gotID, &gotV); err != nil {
			t.Fatal(err)
		}
		if gotID != id || gotV != strconv.FormatInt(id, 10) {
			t.Errorf("SelectRowid(%d): got (%d, %q)", id, gotID, gotV)
		}
		if len(pkRows) != 1 {
			t.Errorf("PKSelect(%d): %d rows", id, len(pkRows))
		}
	}

	for id := range present {
		check(id)
		if id > -1<<63 {
			check(id - 1)
		}
		if id < 1<<63-1 {
			check(id + 1)
		}
	}

	// and the full scan has to agree with the lookups
	n := 0
	if err := db.Select("t", func(r sqlittle.Row) {
		n++
		var id int64
		var v string
		if err := r.Scan(&id, &v); err != nil {
			t.Fatal(err)
		}
		if !present[id] || v != strconv.FormatInt(id, 10) {
			t.Errorf("scan: unexpected row (%d, %q)", id, v)
		}
	}, "id", "v"); err != nil {
		t.Fatal(err)
	}
	if n != len(present) {
		t.Errorf("scan: %d rows, want %d", n, len(present))
	}
}
