package sqlittle_test

// Demonstration for mutation 2 (C04): the result of a rowid lookup depends on
// which lookup was done before it on the same handle.
//
// Needs c04m2.sqlite (made by mkdb.py) in the same directory: table t had
// rowids 1..2000 with v = "value-<rowid>"; every rowid divisible by 5 was
// deleted afterwards.

import (
	"fmt"
	"testing"

	"github.com/alicebob/sqlittle"
)

const c04m2Rows = 2000

func c04m2Lookup(t *testing.T, db *sqlittle.DB, id int64) {
	t.Helper()
	row, err := db.SelectRowid("t", id, "id", "v")
	if err != nil {
		t.Errorf("SelectRowid(%d): %s", id, err)
		return
	}
	want := id >= 1 && id <= c04m2Rows && id%5 != 0
	if !want {
		if row != nil {
			t.Errorf("SelectRowid(%d): absent rowid gives %v", id, row)
		}
		return
	}
	if row == nil {
		t.Errorf("SelectRowid(%d): present rowid not found", id)
		return
	}
	var gotID int64
	var gotV string
	if err := row.Scan(&gotID, &gotV); err != nil {
		t.Fatal(err)
	}
	if gotID != id || gotV != fmt.Sprintf("value-%d", id) {
		t.Errorf("SelectRowid(%d): got (%d, %q)", id, gotID, gotV)
	}
}

func TestC04M2(t *testing.T) {
	db, err := sqlittle.Open("c04m2.sqlite")
	if err != nil {
		t.Fatal(err)
	}
	defer db.Close()

	t.Run("ascending", func(t *testing.T) {
		for id := int64(0); id <= c04m2Rows+1; id++ {
			c04m2Lookup(t, db, id)
		}
	})
	t.Run("ascending neighbours", func(t *testing.T) {
		// every rowid with its two neighbours, as in: r-1, r, r+1
		for id := int64(1); id <= c04m2Rows; id++ {
			c04m2Lookup(t, db, id-1)
			c04m2Lookup(t, db, id)
			c04m2Lookup(t, db, id+1)
		}
	})
	t.Run("descending", func(t *testing.T) {
		for id := int64(c04m2Rows + 1); id >= 0; id-- {
			c04m2Lookup(t, db, id)
		}
	})
	t.Run("absent then present", func(t *testing.T) {
		// 100 was the last row of its leaf, and is still a separator key
		c04m2Lookup(t, db, 1500)
		c04m2Lookup(t, db, 99) // fine
		c04m2Lookup(t, db, 1500)
		c04m2Lookup(t, db, 100) // absent, fine
		c04m2Lookup(t, db, 99)  // same lookup as before
	})
}
