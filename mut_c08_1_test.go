package sqlittle_test

// Demonstration for C08 mutation 1: the two-generation page cache keeps its
// previous generation across a change of the file change counter.
//
// Run from the worktree root:
//   cp /tmp/mut3/C08.out/1/mut_c08_1_test.go . && go test -vet=off -count=1 -run TestMutC08Gen .

import (
	"fmt"
	"os/exec"
	"path/filepath"
	"strings"
	"testing"

	"github.com/alicebob/sqlittle"
)

func c08py(t *testing.T, file, script string) string {
	t.Helper()
	cmd := exec.Command("python3", "-c", `
import sqlite3, sys
c = sqlite3.connect(sys.argv[1], isolation_level=None)
for stmt in sys.argv[2].split(";;"):
    for row in c.execute(stmt):
        print("|".join(str(v) for v in row))
c.close()
`, file, script)
	out, err := cmd.Output()
	if err != nil {
		t.Fatalf("python/sqlite: %v", err)
	}
	return string(out)
}

func c08dump(t *testing.T, db *sqlittle.DB) string {
	t.Helper()
	b := &strings.Builder{}
	err := db.Select("t", func(r sqlittle.Row) {
		var id int64
		var v string
		if err := r.Scan(&id, &v); err != nil {
			t.Fatal(err)
		}
		fmt.Fprintf(b, "%d|%s\n", id, v)
	}, "id", "v")
	if err != nil {
		t.Fatal(err)
	}
	return b.String()
}

func TestMutC08Gen(t *testing.T) {
	file := filepath.Join(t.TempDir(), "big.sqlite")
	// 1K pages, one row per leaf page: 150 leaves, more than the 100 page cache.
	c08py(t, file, `PRAGMA page_size=1024;;
CREATE TABLE t (id INTEGER PRIMARY KEY, v TEXT);;
WITH RECURSIVE n(i) AS (SELECT 1 UNION ALL SELECT i+1 FROM n WHERE i<150)
INSERT INTO t SELECT i, 'A' || printf('%0600d', i) FROM n`)

	db, err := sqlittle.Open(file)
	if err != nil {
		t.Fatal(err)
	}
	defer db.Close()

	if have, want := c08dump(t, db), c08py(t, file, "SELECT id, v FROM t ORDER BY id"); have != want {
		t.Fatalf("first read differs from SQLite")
	}

	// another connection rewrites every row in place
	c08py(t, file, `UPDATE t SET v = 'B' || substr(v, 2)`)

	want := c08py(t, file, "SELECT id, v FROM t ORDER BY id")
	have := c08dump(t, db)
	if have != want {
		hl, wl := strings.Split(have, "\n"), strings.Split(want, "\n")
		stale := 0
		for i := range wl {
			if i >= len(hl) || hl[i] != wl[i] {
				stale++
			}
		}
		t.Fatalf("read after commit differs from SQLite in %d of %d rows (rows: have %d, want %d)", stale, len(wl)-1, len(hl)-1, len(wl)-1)
	}
}
