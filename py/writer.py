#!/usr/bin/env python3
"""A real SQLite writer process, run under the LD_PRELOAD shim (csrc/crashshim.c).

usage: writer.py <db> <journal_mode> <scenario> [uri-params]
The scenario runs exactly one write transaction that bumps meta.version and
stamps the rows it touches with the new version.
"""
import sys, sqlite3, time, os


def main():
    path, jmode, scenario = sys.argv[1], sys.argv[2], sys.argv[3]
    params = sys.argv[4] if len(sys.argv) > 4 else ""
    if params:
        c = sqlite3.connect("file:%s?%s" % (path, params), uri=True, isolation_level=None, timeout=0)
    else:
        c = sqlite3.connect(path, isolation_level=None, timeout=0)
    nosync = scenario.endswith("+nosync")
    if nosync:
        scenario = scenario[:-len("+nosync")]
    c.execute("pragma journal_mode=%s" % jmode)
    # with synchronous=off SQLite writes a complete (valid) journal header at once, so a live
    # writer in RESERVED has a journal that looks hot to anyone who does not check the lock
    c.execute("pragma synchronous=%s" % ("off" if nosync else "full"))
    if scenario.startswith("create-first"):
        if "@" in scenario:
            c.execute("pragma page_size=%d" % int(scenario.split("@")[1]))
        # the very first transaction on a brand-new (0 byte) database file
        c.execute("pragma cache_size=8")
        c.execute("begin")
        c.execute("create table meta(version integer)")
        c.execute("insert into meta values(1)")
        c.execute("create table t(id integer primary key, v, ver integer, pad text)")
        c.execute("create index ix_t_v on t(v)")
        c.executemany("insert into t(v, ver, pad) values(?,?,?)", [(i, 1, "first" + "x" * 150) for i in range(200)])
        c.execute("commit")
        c.close()
        print("DONE", 1, flush=True)
        return
    ver = c.execute("select version from meta").fetchone()[0] + 1
    spill = scenario.startswith("spill") or scenario in ("update-many", "grow", "delete-freelist", "two-statements", "alter-spill")
    if spill:
        c.execute("pragma cache_size=8")     # forces dirty pages out before commit
    else:
        c.execute("pragma cache_size=2000")
    c.execute("begin immediate" if scenario.endswith("-immediate") else "begin")
    if scenario.startswith("spill-insert"):
        c.executemany("insert into t(v, ver, pad) values(?,?,?)", [(i, ver, "p%05d" % i + "x" * 180) for i in range(300)])
    elif scenario == "small-insert" or scenario == "small-insert-immediate":
        c.executemany("insert into t(v, ver, pad) values(?,?,?)", [(i, ver, "small") for i in range(3)])
    elif scenario == "update-many":
        c.execute("update t set ver=?, pad = pad || 'u'", (ver,))
    elif scenario == "delete-freelist":
        c.execute("delete from t where (id % 2) = 0")
        c.execute("update t set ver=? where id = (select min(id) from t)", (ver,))
    elif scenario == "grow":
        c.executemany("insert into t(v, ver, pad) values(?,?,?)", [(i, ver, "g" * 5000) for i in range(40)])
    elif scenario == "two-statements":
        c.executemany("insert into t(v, ver, pad) values(?,?,?)", [(i, ver, "a" * 300) for i in range(100)])
        c.execute("update t set ver=? where (id % 3) = 0", (ver,))
        c.execute("create table if not exists t_extra(a, b)")
        c.execute("insert into t_extra values(?, ?)", (ver, "extra"))
    elif scenario == "alter-spill":
        # a schema change whose page (sqlite_master, here page 1 with the new schema cookie) is spilled into the
        # database file long before the commit
        c.execute("alter table t add column phantom default 'ph'")
        c.execute("update t set ver=?, pad = pad || 'u'", (ver,))
    elif scenario == "pending":
        # a reader in another process holds SHARED: COMMIT gets PENDING, cannot get EXCLUSIVE
        c.executemany("insert into t(v, ver, pad) values(?,?,?)", [(i, ver, "pending") for i in range(5)])
    else:
        raise SystemExit("unknown scenario " + scenario)
    c.execute("update meta set version=?", (ver,))
    tries = 0
    while True:
        try:
            c.execute("commit")
            break
        except sqlite3.OperationalError as e:
            tries += 1
            if tries > 4000:
                raise
            time.sleep(0.01)
    c.close()
    print("DONE", ver, flush=True)


if __name__ == "__main__":
    main()
