#!/usr/bin/env python3
"""Reference-model bridge: real SQLite (python sqlite3 -> libsqlite3) driven over
JSON lines on stdin/stdout.  One request per line, one reply per line.

Typed values on the wire:
  null                      NULL
  {"i": "<decimal>"}        INTEGER
  {"f": "<16 hex digits>"}  REAL, IEEE-754 bits
  {"t": "<base64>"}         TEXT (UTF-8 bytes)
  {"b": "<base64>"}         BLOB
"""
import sys, os, json, base64, struct, sqlite3, shutil, fcntl, time, traceback

sys.path.insert(0, os.path.dirname(os.path.abspath(__file__)))


class Text(bytes):
    pass


def enc(v):
    if v is None:
        return None
    if isinstance(v, Text):
        return {"t": base64.b64encode(bytes(v)).decode()}
    if isinstance(v, (bytes, memoryview)):
        return {"b": base64.b64encode(bytes(v)).decode()}
    if isinstance(v, bool):
        return {"i": str(int(v))}
    if isinstance(v, int):
        return {"i": str(v)}
    if isinstance(v, float):
        return {"f": "%016x" % struct.unpack(">Q", struct.pack(">d", v))[0]}
    if isinstance(v, str):
        return {"t": base64.b64encode(v.encode("utf-8")).decode()}
    raise TypeError(type(v))


class RawText(bytes):
    """TEXT whose bytes are not valid UTF-8: python cannot bind it as str"""


def bind(sql, params):
    """SQL and parameters ready for execute(): the placeholder of a RawText parameter becomes
    CAST(? AS TEXT) and the bytes are bound as a blob (placeholders inside quoted text are skipped)."""
    ps = [dec(p) for p in params]
    if not any(isinstance(p, RawText) for p in ps):
        return sql, ps
    out = []
    n = 0
    quote = None
    i = 0
    while i < len(sql):
        ch = sql[i]
        i += 1
        if quote:
            out.append(ch)
            if ch == quote:
                quote = None
            continue
        if ch in "'\"`":
            quote = ch
            out.append(ch)
            continue
        if ch == "[":
            quote = "]"
            out.append(ch)
            continue
        if ch == "?":
            j = i
            while j < len(sql) and sql[j].isdigit():
                j += 1
            num = sql[i:j]
            idx = int(num) - 1 if num else n
            i = j
            if idx < len(ps) and isinstance(ps[idx], RawText):
                out.append("CAST(?%s AS TEXT)" % num)
            else:
                out.append("?" + num)
            n += 1
            continue
        out.append(ch)
    return "".join(out), [bytes(p) if isinstance(p, RawText) else p for p in ps]


def dec(v):
    if v is None:
        return None
    if "i" in v:
        return int(v["i"])
    if "f" in v:
        return struct.unpack(">d", struct.pack(">Q", int(v["f"], 16)))[0]
    if "t" in v:
        raw = base64.b64decode(v["t"])
        try:
            return raw.decode("utf-8")
        except UnicodeDecodeError:
            return RawText(raw)     # bound as CAST(? AS TEXT) by bind()
    if "b" in v:
        return base64.b64decode(v["b"])
    raise ValueError(v)


def connect(path, uri=False, timeout=0.0, isolation=None):
    c = sqlite3.connect(path, timeout=timeout, isolation_level=isolation, uri=uri,
                        check_same_thread=False)
    c.text_factory = Text
    return c


CONNS = {}


def getconn(req):
    """returns (conn, transient)"""
    if "id" in req and req["id"] in CONNS:
        return CONNS[req["id"]], False
    return connect(req["path"], uri=req.get("uri", False), timeout=req.get("timeout", 5.0)), True


def rows_enc(cur):
    return [[enc(v) for v in row] for row in cur]


def quote_ident(s):
    return '"' + s.replace('"', '""') + '"'


def table_meta(c, with_counts=True):
    """Schema as SQLite sees it."""
    out = []
    tl = {}
    for r in c.execute("pragma table_list"):
        # schema,name,type,ncol,wr,strict
        if bytes(r[0]) == b"main":
            tl[bytes(r[1]).decode()] = (bytes(r[2]).decode(), int(r[4]))
    master = c.execute("select type,name,tbl_name,rootpage,sql from sqlite_master").fetchall()
    for typ, name, tbl, root, sql in master:
        typ = bytes(typ).decode()
        if typ != "table":
            continue
        name = bytes(name).decode()
        if name.startswith("sqlite_"):
            continue
        t = {"name": name, "sql": bytes(sql).decode() if sql is not None else None,
             "root": root, "wr": tl.get(name, ("table", 0))[1], "cols": [], "indexes": []}
        for cid, cname, ctype, notnull, dflt, pk, hidden in c.execute(
                "pragma table_xinfo(%s)" % quote_ident(name)):
            t["cols"].append({"cid": cid, "name": bytes(cname).decode(),
                              "type": bytes(ctype).decode() if ctype is not None else "",
                              "notnull": notnull,
                              "dflt": bytes(dflt).decode() if dflt is not None else None,
                              "pk": pk, "hidden": hidden})
        for seq, iname, uniq, origin, partial in c.execute(
                "pragma index_list(%s)" % quote_ident(name)).fetchall():
            iname = bytes(iname).decode()
            ix = {"name": iname, "unique": uniq, "origin": bytes(origin).decode(),
                  "partial": partial, "cols": [], "sql": None}
            for m in master:
                if bytes(m[0]) == b"index" and bytes(m[1]).decode() == iname:
                    ix["sql"] = bytes(m[4]).decode() if m[4] is not None else None
                    ix["root"] = m[3]
            for seqno, cid, cname, desc, coll, key in c.execute(
                    "pragma index_xinfo(%s)" % quote_ident(iname)):
                ix["cols"].append({"seqno": seqno, "cid": cid,
                                   "name": bytes(cname).decode() if cname is not None else None,
                                   "desc": desc,
                                   "coll": bytes(coll).decode() if coll is not None else None,
                                   "key": key})
            t["indexes"].append(ix)
        # rowid alias per SQLite: single pk column, not WITHOUT ROWID, no pk index
        t["rowid_alias"] = None
        if not t["wr"]:
            pkc = [cc for cc in t["cols"] if cc["pk"]]
            if len(pkc) == 1 and not any(i["origin"] == "pk" for i in t["indexes"]):
                t["rowid_alias"] = pkc[0]["name"]
        if with_counts:
            try:
                t["count"] = c.execute("select count(*) from %s" % quote_ident(name)).fetchone()[0]
            except sqlite3.Error as e:
                t["count"] = -1
        out.append(t)
    return out


LOCK_RANGES = {"pending": (0x40000000, 1), "reserved": (0x40000001, 1), "shared": (0x40000002, 510)}


def getlk(path):
    """Would a writer be able to lock each range now?  F_GETLK with F_WRLCK from
    this process (which must not hold an sqlite connection on the file)."""
    fd = os.open(path, os.O_RDWR)
    res = {}
    try:
        for k, (start, ln) in LOCK_RANGES.items():
            # struct flock on linux x86_64: short l_type; short l_whence; off_t l_start; off_t l_len; pid_t l_pid
            arg = struct.pack("hhqqi4x", fcntl.F_WRLCK, 0, start, ln, 0)
            out = fcntl.fcntl(fd, fcntl.F_GETLK, arg)
            l_type, _, l_start, l_len, l_pid = struct.unpack("hhqqi4x", out)
            res[k] = {"type": {fcntl.F_UNLCK: "UN", fcntl.F_RDLCK: "RD", fcntl.F_WRLCK: "WR"}[l_type],
                      "pid": l_pid if l_type != fcntl.F_UNLCK else 0}
    finally:
        os.close(fd)
    return res


def dump_all(c):
    """every user table, rows in rowid / pk order, typed"""
    res = {}
    for t in table_meta(c, with_counts=False):
        cols = [cc["name"] for cc in t["cols"] if not cc["hidden"]]
        sel = ",".join(quote_ident(x) for x in cols)
        if t["wr"]:
            pk = [i for i in t["indexes"] if i["origin"] == "pk"]
            order = ",".join("%s COLLATE %s %s" % (quote_ident(k["name"]), k["coll"], "DESC" if k["desc"] else "ASC")
                             for k in pk[0]["cols"] if k["key"])
        else:
            order = "rowid"
            sel = "rowid," + sel
        res[t["name"]] = rows_enc(c.execute("select %s from %s order by %s" % (sel, quote_ident(t["name"]), order)))
    return res


def handle(req):
    op = req["op"]
    if op == "ping":
        return {"pid": os.getpid(), "sqlite": sqlite3.sqlite_version}
    if op == "open":
        CONNS[req["id"]] = connect(req["path"], uri=req.get("uri", False),
                                   timeout=req.get("timeout", 0.0), isolation=None)
        return {}
    if op == "close":
        c = CONNS.pop(req["id"], None)
        if c is not None:
            c.close()
        return {}
    if op == "q":
        c, tr = getconn(req)
        try:
            cur = c.execute(*bind(req["sql"], req.get("params", [])))
            rows = rows_enc(cur)
            return {"rows": rows}
        finally:
            if tr:
                c.close()
    if op == "qmany":
        c, tr = getconn(req)
        try:
            out = []
            for ps in req["paramsets"]:
                out.append(rows_enc(c.execute(*bind(req["sql"], ps))))
            return {"results": out}
        finally:
            if tr:
                c.close()
    if op == "qlist":
        # many different statements on one connection
        c, tr = getconn(req)
        try:
            out = []
            for s in req["sqls"]:
                try:
                    out.append({"rows": rows_enc(c.execute(s))})
                except sqlite3.Error as e:
                    out.append({"err": str(e)})
            return {"results": out}
        finally:
            if tr:
                c.close()
    if op == "script":
        c, tr = getconn(req)
        try:
            c.executescript(req["sql"])
            return {}
        finally:
            if tr:
                c.close()
    if op == "exec":
        # sequence of statements with typed params; stops on first error
        c, tr = getconn(req)
        try:
            for st in req["stmts"]:
                if isinstance(st, str):
                    c.execute(st)
                else:
                    c.execute(*bind(st[0], st[1]))
            return {}
        finally:
            if tr:
                c.close()
    if op == "meta":
        c, tr = getconn(req)
        try:
            hdr = {}
            for p in ("page_size", "page_count", "auto_vacuum", "schema_version", "freelist_count",
                      "journal_mode", "encoding"):
                v = c.execute("pragma " + p).fetchone()[0]
                hdr[p] = v.decode() if isinstance(v, bytes) else v
            return {"tables": table_meta(c), "pragmas": hdr}
        finally:
            if tr:
                c.close()
    if op == "dbstat":
        c, tr = getconn(req)
        try:
            rows = c.execute("select name, path, pageno, pagetype, ncell, payload, mx_payload from dbstat").fetchall()
            per = {}
            for name, path, pageno, pagetype, ncell, payload, mx in rows:
                name = bytes(name).decode()
                path = bytes(path).decode()
                pagetype = bytes(pagetype).decode()
                d = per.setdefault(name, {"depth": 0, "pages": 0, "overflow": 0, "interior": 0, "leaf": 0})
                d["pages"] += 1
                if pagetype == "overflow":
                    d["overflow"] += 1
                else:
                    depth = path.count("/")
                    d["depth"] = max(d["depth"], depth)
                    d[pagetype if pagetype in ("leaf",) else "interior"] += 1
            return {"stat": per}
        finally:
            if tr:
                c.close()
    if op == "dump":
        c, tr = getconn(req)
        try:
            return {"tables": dump_all(c)}
        finally:
            if tr:
                c.close()
    if op == "recover":
        # copy (db, journal) aside, let SQLite recover the copy, dump it
        src, dst = req["src"], req["dst"]
        shutil.copyfile(src, dst)
        if os.path.exists(src + "-journal"):
            shutil.copyfile(src + "-journal", dst + "-journal")
        elif os.path.exists(dst + "-journal"):
            os.unlink(dst + "-journal")
        c = connect(dst, timeout=1.0)
        try:
            # a write transaction forces hot-journal playback and checks integrity
            ic = c.execute("pragma integrity_check").fetchall()
            d = dump_all(c)
            return {"tables": d, "integrity": [bytes(x[0]).decode() for x in ic]}
        finally:
            c.close()
    if op == "getlk":
        return {"locks": getlk(req["path"])}
    if op == "rank":
        # dense rank of values under each collation; values must be storable
        c = connect(":memory:")
        c.execute("create table g(i integer primary key, v)")
        c.executemany("insert into g values(?,?)", [(i, dec(v)) for i, v in enumerate(req["values"])])
        out = {}
        for coll in req["collations"]:
            rows = c.execute("select i, dense_rank() over (order by v collate %s) from g order by i" % coll).fetchall()
            out[coll] = [r[1] for r in rows]
        # what was actually stored (storage class could differ from what was sent)
        stored = rows_enc(c.execute("select v from g order by i"))
        c.close()
        return {"ranks": out, "stored": [r[0] for r in stored]}
    if op == "gen":
        import gen
        if req["profile"].get("kind") == "decode":
            return gen.generate_decode(req)
        return gen.generate(req)
    if op == "ddl":
        import ddlgen
        return ddlgen.handle(req)
    if op == "copy":
        shutil.copyfile(req["src"], req["dst"])
        for suffix in ("-journal",):
            if os.path.exists(req["src"] + suffix):
                shutil.copyfile(req["src"] + suffix, req["dst"] + suffix)
        return {}
    raise ValueError("unknown op %r" % op)


def main():
    out = sys.stdout
    for line in sys.stdin:
        line = line.strip()
        if not line:
            continue
        try:
            req = json.loads(line)
            res = handle(req)
            res["ok"] = True
        except sqlite3.Error as e:
            res = {"ok": False, "err": str(e), "kind": "sqlite", "cls": type(e).__name__}
        except Exception as e:
            res = {"ok": False, "err": "%s: %s" % (type(e).__name__, e), "kind": "internal",
                   "tb": traceback.format_exc()}
        out.write(json.dumps(res, separators=(",", ":")))
        out.write("\n")
        out.flush()


if __name__ == "__main__":
    main()
