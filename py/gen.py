"""Deterministic corpus database generator (runs inside oracle.py).

generate({"path":..., "seed":int, "profile":{...}}) builds one database with real
SQLite and returns generator-side metadata that SQLite's pragmas cannot give
back (partial-index WHERE text, expression-column text).
"""
import os, random, sqlite3, struct


def ints_grid():
    out = [0, 1, -1, 2, 9, 10, 11]
    for b in (7, 8, 15, 16, 23, 24, 31, 32, 47, 48, 53, 62, 63):
        p = 1 << b
        for v in (p - 1, p, p + 1, -p + 1, -p, -p - 1):
            if -(1 << 63) <= v < (1 << 63):
                out.append(v)
    return sorted(set(out))


def floats_grid():
    bits = lambda h: struct.unpack(">d", struct.pack(">Q", h))[0]
    return [0.0, -0.0, 0.5, -0.5, 1.5, 1e-300, -1e-300, 1e300, -1e300,
            float("inf"), float("-inf"), bits(1), bits(0x8000000000000001),
            bits(0x000fffffffffffff), 2.0 ** 53, 2.0 ** 53 + 2, -(2.0 ** 53), 2.0 ** 63, -(2.0 ** 63),
            9.007199254740993e15, 3.0, 10.0, 1e10, 123456789.125, 0.1, 1 / 3.0]


TEXT_BASE = ["", "a", "A", "ab", "aB", "AB", "abc", "ABC", "Abc", "abc ", "abc  ", "abc\t", "abc\n",
             " abc", "abd", "b", "B", "ba", "z", "Z", "zz", "a\x00b", "a\x00c", "A\x00B", "\x00",
             "é", "É", "é", "ß", "SS", "中文", "\U0001f600", "[", "`", "{", "@",
             "0", "1", "10", "9", "-1", "1.0", "1e3", "hello world", "Hello World", "HELLO WORLD ",
             "x" * 40, "X" * 40, "x" * 39 + "y"]


def blobs_grid():
    return [b"", b"\x00", b"\x00\x00", b"a", b"A", b"abc", b"abc ", b"\xff", b"\xff\xff", b"\x80", b"ab\x00",
            bytes(range(256)), b"x" * 40]


class G:
    def __init__(self, seed, prof):
        self.r = random.Random(seed)
        self.prof = prof
        self.ints = ints_grid()
        self.floats = floats_grid()
        self.texts = list(TEXT_BASE)
        self.blobs = blobs_grid()

    def any_value(self, nullp=0.08):
        r = self.r
        x = r.random()
        if x < nullp:
            return None
        if x < 0.35:
            return r.choice(self.ints) if r.random() < 0.5 else r.randint(-50, 50)
        if x < 0.50:
            return r.choice(self.floats) if r.random() < 0.6 else float(r.randint(-20, 20)) + r.choice((0.0, 0.5))
        if x < 0.85:
            return r.choice(self.texts)
        return r.choice(self.blobs)

    def text_value(self):
        r = self.r
        if r.random() < 0.7:
            return r.choice(self.texts)
        n = r.randint(1, 12)
        return "".join(r.choice("abABzZ \t0é") for _ in range(n))

    def payload(self, n, kind):
        r = self.r
        if kind == "t":
            return "".join(r.choice("abcdefghijklmnopqrstuvwxyz") for _ in range(min(n, 64))) + "q" * max(0, n - 64)
        return bytes(r.getrandbits(8) for _ in range(min(n, 64))) + b"\x5a" * max(0, n - 64)


def thresholds(ps):
    u = ps
    xt = u - 35
    xi = ((u - 12) * 64 // 255) - 23
    m = ((u - 12) * 32 // 255) - 23
    return xt, xi, m


def generate(req):
    path = req["path"]
    prof = req["profile"]
    seed = int(req["seed"])
    for p in (path, path + "-journal", path + "-wal", path + "-shm"):
        if os.path.exists(p):
            os.unlink(p)
    g = G(seed, prof)
    r = g.r
    ps = int(prof.get("page_size", 4096))
    n = int(prof.get("rows", 300))
    feats = set(prof.get("features", ["plain", "alias", "pk", "cpk", "wr", "wr2", "big", "alter", "misc"]))
    c = sqlite3.connect(path, isolation_level=None)
    c.execute("pragma page_size=%d" % ps)
    c.execute("pragma auto_vacuum=%d" % int(prof.get("auto_vacuum", 0)))
    c.execute("pragma journal_mode=%s" % prof.get("journal_mode", "delete"))
    if prof.get("cache_spill_off"):
        c.execute("pragma cache_size=2000")
    meta = {"indexes": {}, "notes": []}
    c.execute("begin")

    if "plain" in feats:
        c.execute("create table t_plain(a, b TEXT, c INTEGER, d REAL)")
        c.execute("create index ix_plain_a on t_plain(a)")
        c.execute("create index ix_plain_bc on t_plain(b COLLATE NOCASE DESC, c)")
        c.execute("create index ix_plain_c on t_plain(c)")
        c.execute("create index ix_plain_part on t_plain(d) where c > 10")
        meta["indexes"]["ix_plain_part"] = {"where": "c > 10", "exprs": []}
        c.execute("create index ix_plain_expr on t_plain(c + 1, a DESC)")
        meta["indexes"]["ix_plain_expr"] = {"where": None, "exprs": ["c + 1"]}
        c.execute("create index ix_plain_rt on t_plain(b COLLATE RTRIM, a)")
        c.execute("create unique index ix_plain_u on t_plain(a, b, c, d)")
        c.execute("create index ix_plain_l3 on t_plain(c, b COLLATE NOCASE, a)")
        rows = []
        for i in range(n):
            rows.append((g.any_value(), g.text_value() if r.random() > 0.05 else None,
                         r.randint(0, 20) if r.random() > 0.03 else None,
                         r.choice(g.floats) if r.random() < 0.3 else (float(r.randint(-9, 9)) if r.random() < 0.5 else r.random() * 100)))
        c.executemany("insert or ignore into t_plain values(?,?,?,?)", rows)

    if "alias" in feats:
        c.execute("create table t_alias(id INTEGER PRIMARY KEY, v, w TEXT COLLATE RTRIM)")
        c.execute("create index ix_alias_v on t_alias(v DESC)")
        c.execute("create index ix_alias_w on t_alias(w)")
        c.execute("create index ix_alias_w2 on t_alias(w COLLATE NOCASE DESC)")
        ids = set()
        m = max(4, n // 2)
        for i in range(m):
            x = r.random()
            if x < 0.5:
                ids.add(r.randint(-3 * m, 3 * m))
            elif x < 0.8:
                ids.add(i * 7 - m)
            else:
                ids.add(r.choice(g.ints))
        for v in (0, -1, 1, (1 << 63) - 1, -(1 << 63), 127, 128, -128, -129, 32767, 32768):
            if r.random() < 0.7:
                ids.add(v)
        c.executemany("insert into t_alias values(?,?,?)",
                      [(i, g.any_value(), g.text_value() if r.random() > 0.1 else None) for i in sorted(ids, key=lambda _: r.random())])

    if "pk" in feats:
        c.execute("create table t_pk(k TEXT PRIMARY KEY, n INTEGER UNIQUE, v)")
        m = max(4, n // 3)
        c.executemany("insert or ignore into t_pk values(?,?,?)",
                      [(g.text_value() + str(r.randint(0, m)) if r.random() < 0.8 else g.text_value(),
                        r.randint(-m, m) if r.random() > 0.1 else None, g.any_value()) for i in range(m)])
        # non-text values in a TEXT pk, and NULL pks (legal in rowid tables)
        c.executemany("insert or ignore into t_pk values(?,?,?)", [(None, None, 1), (None, None, 2), (b"blobkey", None, 3)])

    if "pk" in feats:
        # column-level constraints on collated columns
        c.execute("create table t_colpk(k TEXT COLLATE NOCASE PRIMARY KEY, u TEXT UNIQUE COLLATE RTRIM, w TEXT COLLATE NOCASE UNIQUE, v)")
        m = max(4, n // 4)
        c.executemany("insert or ignore into t_colpk values(?,?,?,?)",
                      [(g.text_value(), g.text_value() if r.random() > 0.1 else None, g.text_value() if r.random() > 0.1 else None, g.any_value()) for i in range(m)])
        c.execute("create index ix_colpk_v on t_colpk(v, k)")
        c.execute("create table t_uqpk(a TEXT UNIQUE PRIMARY KEY DESC, b INTEGER, UNIQUE(b, a), UNIQUE(a COLLATE binary))")
        c.executemany("insert or ignore into t_uqpk values(?,?)", [(g.text_value(), r.randint(0, 9)) for i in range(m)])

    if "cpk" in feats:
        c.execute("create table t_cpk(a INTEGER, b TEXT COLLATE NOCASE, c, PRIMARY KEY(a, b DESC))")
        c.execute("create index ix_cpk_c on t_cpk(c, a)")
        c.execute("create index ix_cpk_b on t_cpk(b COLLATE BINARY, c)")
        m = max(4, n // 3)
        c.executemany("insert or ignore into t_cpk values(?,?,?)",
                      [(r.randint(0, 12) if r.random() > 0.05 else None, g.text_value(), g.any_value()) for i in range(m)])

    if "wr" in feats:
        if prof.get("wr_variant"):
            # same table name and column list as everywhere else, another primary key order
            c.execute("create table t_wr(a, b TEXT, c INTEGER, d, PRIMARY KEY(a, c)) WITHOUT ROWID")
        else:
            c.execute("create table t_wr(a, b TEXT, c INTEGER, d, PRIMARY KEY(c, a)) WITHOUT ROWID")
        c.execute("create index ix_wr_d on t_wr(d)")
        c.execute("create index ix_wr_bc on t_wr(b DESC, c)")
        c.execute("create index ix_wr_anc on t_wr(a COLLATE NOCASE)")
        m = max(4, n // 2)
        c.executemany("insert or ignore into t_wr values(?,?,?,?)",
                      [(g.any_value(nullp=0), g.text_value() if r.random() > 0.1 else None,
                        r.randint(-5, 25), g.any_value()) for i in range(m)])

    if "wr2" in feats:
        c.execute("create table t_wr2(k TEXT COLLATE NOCASE, n, v, PRIMARY KEY(k DESC)) WITHOUT ROWID")
        c.execute("create index ix_wr2_n on t_wr2(n)")
        c.execute("create index ix_wr2_nk on t_wr2(n, k COLLATE BINARY)")
        c.execute("create index ix_wr2_nk2 on t_wr2(n, K)")          # pk column re-listed: same collation, other direction and spelling
        m = max(4, n // 3)
        c.executemany("insert or ignore into t_wr2 values(?,?,?)",
                      [(g.text_value() + (str(r.randint(0, m)) if r.random() < 0.7 else ""), r.randint(0, 9) if r.random() > 0.1 else None,
                        g.any_value()) for i in range(m)])
        c.execute("create table t_wr4(i INTEGER PRIMARY KEY, s TEXT COLLATE NOCASE UNIQUE, t, UNIQUE(t, i)) WITHOUT ROWID")
        c.executemany("insert or ignore into t_wr4 values(?,?,?)", [(r.randint(-50, 50), g.text_value(), g.any_value()) for i in range(m)])
        # UNIQUE first, then a PRIMARY KEY on the same column with the other direction (SQLite keeps the first)
        c.execute("create table t_wr5(a TEXT UNIQUE, n, PRIMARY KEY(a DESC)) WITHOUT ROWID")
        c.execute("create index ix_wr5_n on t_wr5(n)")
        c.executemany("insert or ignore into t_wr5 values(?,?)", [(g.text_value() + str(i), r.randint(0, 9)) for i in range(m)])
        # the primary key spells its columns differently from the column definitions
        c.execute("create table t_wr6(Name TEXT, Region TEXT, Qty, PRIMARY KEY (region, NAME)) WITHOUT ROWID")
        c.execute("create index ix_wr6_q on t_wr6(qty, name)")
        c.executemany("insert or ignore into t_wr6 values(?,?,?)", [("n%d" % (i % 17), "r%d" % (i % 5), g.any_value()) for i in range(m)])
        # the same column twice in the key under two collations (stored as a, a, n, v), and a key whose later
        # column has the default collation after a NOCASE one, with rows that differ by case in that later column only
        c.execute("create table t_wr7(a TEXT, n, v, PRIMARY KEY(a COLLATE NOCASE, a)) WITHOUT ROWID")
        c.execute("create index ix_wr7_n on t_wr7(n)")
        c.executemany("insert or ignore into t_wr7 values(?,?,?)",
                      [(r.choice(["k", "K", "kk", "Kk", "kK", "z", "Z "]) + (str(i % 9) if i % 3 else ""), r.randint(0, 7), "v%d" % i) for i in range(m)])
        c.execute("create table t_wr8(a TEXT COLLATE NOCASE, b TEXT, n, v, PRIMARY KEY(a, b)) WITHOUT ROWID")
        c.execute("create index ix_wr8_n on t_wr8(n)")
        c.executemany("insert or ignore into t_wr8 values(?,?,?,?)",
                      [(r.choice(["k", "K", "m"]), r.choice(["b", "B", "bb", "bB", "Bb", "c"]) + (str(i % 5) if i % 4 == 0 else ""), r.randint(0, 7), "w%d" % i) for i in range(m)])
        c.execute("create table t_wr3(x INTEGER, y INTEGER, z TEXT, w, PRIMARY KEY(z, x, y)) WITHOUT ROWID")
        c.execute("create index ix_wr3_wy on t_wr3(w, y)")
        c.execute("create index ix_wr3_znc on t_wr3(z COLLATE NOCASE)")
        # a key column named again with its own (default) collation spelled out: SQLite does not add it a second time
        c.execute("create index ix_wr3_wzb on t_wr3(w, z COLLATE BINARY)")
        c.execute("create index ix_wr3_yb on t_wr3(y COLLATE binary DESC, w)")
        c.executemany("insert or ignore into t_wr3 values(?,?,?,?)",
                      [(r.randint(0, 5), r.randint(0, 5), r.choice(["p", "q", "P", "r "]), g.any_value()) for i in range(m)])

    if "big" in feats:
        xt, xi, mm = thresholds(ps)
        c.execute("create table t_big(id INTEGER PRIMARY KEY, p)")
        c.execute("create index ix_big_p on t_big(p)")
        lens = set()
        for base in (xt, xi, mm, ps, ps - 4, 2 * ps, 2 * (ps - 4), 3 * (ps - 4) + mm):
            for d in range(-12, 13):
                if base + d >= 0 and r.random() < prof.get("big_density", 0.35):
                    lens.add(base + d)
        # K == X exactly and its neighbours: P = X + n*(U-4) for the table and the index threshold
        for x in (xt, xi):
            for nn in (1, 2):
                for d in (-1, 0, 1):
                    lens.add(x + nn * (ps - 4) + d - 3)   # -3: record header (2) + ... so that the payload itself sweeps the point
                    lens.add(x + nn * (ps - 4) + d - 2)
                    lens.add(x + nn * (ps - 4) + d - 4)
                    lens.add(x + nn * (ps - 4) + d - 5)
        for extra in prof.get("big_extra", [5 * ps + 17, 11 * ps]):
            lens.add(int(extra))
        rows = []
        for i, L in enumerate(sorted(lens, key=lambda _: r.random())):
            rows.append((i * 3 + 1, g.payload(L, "t" if r.random() < 0.5 else "b")))
        c.executemany("insert into t_big values(?,?)", rows)

    if "alter" in feats:
        c.execute("create table t_alter(a, b TEXT)")
        m = max(3, n // 10)
        c.executemany("insert into t_alter values(?,?)", [(g.any_value(), g.text_value()) for i in range(m)])
        c.execute("alter table t_alter add column c TEXT DEFAULT 'dflt'")
        c.executemany("insert into t_alter values(?,?,?)", [(g.any_value(), g.text_value(), g.text_value()) for i in range(m)])
        c.execute("alter table t_alter add column d INTEGER DEFAULT 7")
        c.execute("alter table t_alter add column e")
        c.executemany("insert into t_alter(a,b,c,d,e) values(?,?,?,?,?)",
                      [(g.any_value(), g.text_value(), None, r.randint(0, 3), g.any_value()) for i in range(m)])
        c.execute("alter table t_alter add column f REAL DEFAULT 2")
        c.execute("alter table t_alter add column g DEFAULT -3")
        c.execute("alter table t_alter add column h DEFAULT NULL")
        c.executemany("insert into t_alter(a,h) values(?,?)", [(i, g.any_value()) for i in range(3)])
        c.execute("create index ix_alter_d on t_alter(d)")

    if "misc" in feats:
        # TEXT whose bytes are not valid UTF-8 (SQLite stores and returns them verbatim)
        c.execute("create table t_rawtext(id INTEGER PRIMARY KEY, s TEXT, n TEXT COLLATE NOCASE)")
        c.execute("create index ix_rawtext_s on t_rawtext(s)")
        c.execute("create index ix_rawtext_n on t_rawtext(n)")
        raw = [b"caf\xe9", b"\xff", b"\xc3", b"a\xc0\xafb", b"\xed\xa0\x80", b"plain", b"\xf0\x9f\x98", b"Caf\xe9", b"caf\xc3\xa9", b"\xfe\xff", b"A\x80", b"a\x80"]
        c.executemany("insert into t_rawtext(s, n) values(cast(? as text), cast(? as text))", [(x, x) for x in raw])
        # names that differ only in the case of a non-ASCII letter are DIFFERENT names (SQLite folds ASCII only)
        c.execute('create table "É"(id INTEGER PRIMARY KEY, "Ä" TEXT, "ä" TEXT, n)')
        c.execute('create index "iÉ" on "É"("ä")')
        c.execute('create table "é"(id INTEGER PRIMARY KEY, "Ä" TEXT, "ä" TEXT, n)')
        c.execute('create index "ié" on "é"("Ä", n)')
        c.executemany('insert into "É" values(?,?,?,?)', [(i, "UP%d" % (i % 5), "low%d" % (i % 3), i) for i in range(1, 9)])
        c.executemany('insert into "é" values(?,?,?,?)', [(i, "second-UP%d" % (i % 2), "second-low%d" % i, -i) for i in range(1, 6)])
        # a definition SQLite accepts and the library's parser refuses (float default, IN inside CHECK): every call on
        # it has to fail the same way, alone and next to other goroutines
        c.execute("create table t_reject(a REAL DEFAULT 0.5, b, CHECK (b IN (1, 2, 3)))")
        c.executemany("insert into t_reject(b) values(?)", [(1,), (2,), (3,)])
        c.execute("create table t_empty(x, y)")
        c.execute("create index ix_empty_x on t_empty(x)")
        # real columns that carry the names of the rowid keywords (only _rowid_ still means the rowid)
        c.execute('create table t_rowidname(oid TEXT, rowid INTEGER, v)')
        c.executemany("insert into t_rowidname values(?,?,?)", [("o%d" % i, 1000 - i, g.any_value()) for i in range(max(3, n // 20))])
        c.execute('create index ix_rowidname on t_rowidname(rowid, oid)')
        c.execute('create index ix_rowidname_v on t_rowidname(v)')
        c.execute("create table t_one(x)")
        c.execute("insert into t_one values('only')")
        if "plain" in feats:
            c.execute("create view v_plain as select a, b from t_plain where c > 3")
            c.execute("create trigger tr_plain after insert on t_plain begin select 1; end")
        c.execute('create table "T Mixed"("Col A" integer primary key, "select" text, [b c] blob, `d`)')
        c.execute('create index "Ix Mixed" on "T Mixed"("select" DESC, `d`)')
        c.executemany('insert into "T Mixed" values(?,?,?,?)',
                      [(i * 2, g.text_value(), r.choice(g.blobs), g.any_value()) for i in range(max(3, n // 20))])

    if "customcoll" in feats:
        # a perfectly valid database that uses an application-defined collation
        c.create_collation("mycoll", lambda a, b: (a > b) - (a < b))
        c.execute("create table t_cc(k TEXT COLLATE mycoll PRIMARY KEY, v, w) WITHOUT ROWID")
        c.execute("create index ix_cc_v on t_cc(v)")
        c.execute("create table t_cc2(a TEXT COLLATE mycoll, b, c TEXT)")
        c.execute("create index ix_cc2_ab on t_cc2(a, b)")
        c.execute("create index ix_cc2_c on t_cc2(c COLLATE mycoll DESC)")
        c.execute("create table t_cc3(a TEXT PRIMARY KEY COLLATE mycoll, b UNIQUE)")
        m = max(6, n // 5)
        c.executemany("insert or ignore into t_cc values(?,?,?)", [("k%03d" % i, r.randint(0, 9), g.any_value()) for i in range(m)])
        c.executemany("insert or ignore into t_cc2 values(?,?,?)", [(g.text_value(), r.randint(0, 9), g.text_value()) for i in range(m)])
        c.executemany("insert or ignore into t_cc3 values(?,?)", [("p%03d" % i, i) for i in range(m)])

    if "wide" in feats:
        ncol = int(prof.get("wide_cols", 140))
        c.execute("create table t_wide(%s)" % ",".join("c%d" % i for i in range(ncol)))
        for j in range(max(2, n // 50)):
            c.execute("insert into t_wide values(%s)" % ",".join("?" * ncol), [g.any_value() for _ in range(ncol)])

    c.execute("commit")

    if prof.get("frag"):
        c.execute("begin")
        for t, key in (("t_plain", "rowid"), ("t_alias", "id"), ("t_wr", "c"), ("t_cpk", "rowid")):
            try:
                c.execute("delete from %s where (%s %% 3) = 0" % (t, key))
            except sqlite3.Error:
                pass
        if "plain" in feats:
            c.executemany("insert or ignore into t_plain values(?,?,?,?)",
                          [(g.any_value(), g.text_value(), r.randint(0, 20), r.random()) for i in range(n // 4)])
            c.execute("update or ignore t_plain set b = b || 'grown' where (rowid % 5) = 1")
        if "big" in feats:
            c.execute("delete from t_big where (id % 2) = 0")
        c.execute("commit")
    if prof.get("vacuum"):
        c.execute("vacuum")
    if prof.get("incr_vacuum"):
        c.execute("pragma incremental_vacuum")
    c.close()
    return {"gen": meta}


def decode_lengths(ps, exhaustive, spread=0):
    xt, xi, m = thresholds(ps)
    u = ps
    if exhaustive:
        return list(range(0, 3 * ps + 1))
    s = set(range(0, 20))
    w1, w2, nmax = 8 + spread, 4 + spread, (3 if not spread else 5)
    for base in (xt, xi, m, ps, u - 4, 2 * (u - 4), 3 * (u - 4)):
        for d in range(-w1, w1 + 1):
            s.add(base + d)
    for n in range(1, nmax + 1):
        for x in (xt, xi):
            for d in range(-w2, w2 + 1):
                s.add(x + n * (u - 4) + d)      # K crosses X
        for d in range(-w2, w2 + 1):
            s.add(m + n * (u - 4) + d)          # K wraps to M
    return sorted(v for v in s if v >= 0)


def generate_decode(req):
    """Database for C14: payload lengths around / across every local-payload
    threshold, all serial types at their boundaries, varint lengths 1..9."""
    path = req["path"]
    prof = req["profile"]
    seed = int(req["seed"])
    for p in (path, path + "-journal"):
        if os.path.exists(p):
            os.unlink(p)
    r = random.Random(seed)
    ps = int(prof["page_size"])
    c = sqlite3.connect(path, isolation_level=None)
    c.execute("pragma page_size=%d" % ps)
    c.execute("begin")
    lens = decode_lengths(ps, bool(prof.get("exhaustive")), int(prof.get("spread", 0)))
    # record overhead differs per table, so blob lengths sweep payload lengths
    c.execute("create table d_len(id INTEGER PRIMARY KEY, p)")
    c.execute("create table d_wr(k INTEGER PRIMARY KEY, p) WITHOUT ROWID")
    c.execute("create table d_ix(id INTEGER PRIMARY KEY, p)")
    c.execute("create index ix_d_ix on d_ix(p)")

    def body(n, i):
        kind = i % 3
        if kind == 0:
            return bytes((i * 7 + j) & 0xff for j in range(min(n, 32))) + b"\xa5" * max(0, n - 32)
        if kind == 1:
            return ("%06d" % i)[:n] + "t" * max(0, n - 6)
        return bytes([i & 0xff]) * n
    rows = [(i + 1, body(n, i)) for i, n in enumerate(lens)]
    c.executemany("insert into d_len values(?,?)", rows)
    c.executemany("insert into d_wr values(?,?)", rows)
    # index entries: make the leading bytes distinct so the index order is interesting
    c.executemany("insert into d_ix values(?,?)", rows)
    extra = prof.get("huge", [])
    for j, n in enumerate(extra):
        c.execute("insert into d_len values(?,?)", (10_000_000 + j, b"\x11" * int(n)))
    # integers: every serial width boundary, as values and as rowids
    c.execute("create table d_ints(id INTEGER PRIMARY KEY, v)")
    vals = set([0, 1, -1, 2])
    for b in (7, 8, 15, 16, 23, 24, 31, 32, 47, 48, 55, 56, 62, 63):
        p2 = 1 << b
        for v in (p2 - 2, p2 - 1, p2, p2 + 1, -p2 - 1, -p2, -p2 + 1, -p2 + 2):
            if -(1 << 63) <= v < (1 << 63):
                vals.add(v)
    for b in (7, 14, 21, 28, 35, 42, 49, 56, 63):  # varint length boundaries
        p2 = 1 << b
        for v in (p2 - 1, p2, -p2):
            if -(1 << 63) <= v < (1 << 63):
                vals.add(v)
    vals = sorted(vals)
    c.executemany("insert into d_ints values(?,?)", [(v, vals[(i * 7) % len(vals)]) for i, v in enumerate(vals)])
    c.execute("create index ix_d_ints on d_ints(v)")
    c.execute("create table d_floats(id INTEGER PRIMARY KEY, f, g REAL)")
    bits = lambda h: struct.unpack(">d", struct.pack(">Q", h))[0]
    fl = floats_grid() + [bits(r.getrandbits(64)) for _ in range(200)]
    fl = [f for f in fl if f == f]  # NaN is stored as NULL
    c.executemany("insert into d_floats values(?,?,?)", [(i, f, f) for i, f in enumerate(fl)])
    # TEXT that is not valid UTF-8, in-page and spilled: the bytes come back verbatim
    c.execute("create table d_rawtext(id INTEGER PRIMARY KEY, s TEXT)")
    c.execute("create index ix_d_rawtext on d_rawtext(s)")
    rawt = [b"caf\xe9", b"\xff", b"\xc3", b"a\xc0\xafb", b"\xed\xa0\x80", b"\xf0\x9f\x98", b"\xfe\xff\x00x", b"ok",
            b"\xe9" * (ps + 50), b"z\xff" * ps, (b"valid \xc3\xa9 " * 40) + b"\xc3"]
    c.executemany("insert into d_rawtext(s) values(cast(? as text))", [(x,) for x in rawt])
    ncol = int(prof.get("wide_cols", 200))
    c.execute("create table d_wide(%s)" % ",".join("c%d" % i for i in range(ncol)))
    g = G(seed, prof)
    for j in range(6):
        c.execute("insert into d_wide values(%s)" % ",".join("?" * ncol), [g.any_value() for _ in range(ncol)])
    c.execute("insert into d_wide values(%s)" % ",".join("?" * ncol), ["w" * 300 if i % 50 == 0 else None for i in range(ncol)])
    c.execute("commit")
    c.close()
    return {"gen": {"indexes": {}, "lengths": len(lens)}}
