"""Grammar-based generator of CREATE TABLE / CREATE INDEX programs, validated by
real SQLite.  Used by C10 (schema interpretation) and C16 (parser locality).

handle({"op":"ddl","seed":..,"n":..,"path":.. or None}) ->
  {"programs":[{ "table": {...decomposed...}, "indexes":[...], "meta": {...SQLite's view...} }]}
If path is given all accepted programs are created in that database file
(distinct table names) so sqlittle can read the stored definitions.
"""
import random, sqlite3, os

TYPES = ["", "", "", "INTEGER", "INTEGER", "INTEGER", "INT", "TEXT", "TEXT", "VARCHAR(10)", "REAL", "BLOB", "NUMERIC(10,2)", "integer", "Integer",
         "BIGINT", "\"INTEGER\"", "[TEXT]", "CHARACTER(20)", "INTEGER", "TEXT", "BLOB", "REAL", "FLOAT", "DATETIME", "BOOLEAN", "INTEGER(8)", "INTEGER"]
RARE_TYPES = ["DOUBLE PRECISION", "UNSIGNED BIG INT", "VARYING CHARACTER(255)"]
COLLS = ["BINARY", "NOCASE", "RTRIM", "nocase", "rtrim", "binary", "NoCase", "Rtrim"]
COLNAMES = ["a", "b", "c", "d", "e", "f", "g", "id", "name", "val", "rowid", "Oid", "x1", "y_2", "Key2", "\"quoted col\"", "[br col]", "`tick`", "\"select\"",
            "\"a\"\"q\"", "k", "Z", "\"TEXT\"", "\"é\"", "col_é", "été", "ñ", "Ünï_1", "名前", "\"É\"", "Été", "Ñ", "replace", "Replace", "a\u00a0b", "x\u2003y", "€uro", "naïve", "\"say \"\"hi\"\" twice\"", "`t``i``ck`"]
DEFAULTS = ["0", "1", "-1", "+2", "42", "'x'", "''", "'it''s'", "NULL", "0x1F", "123456789012", "-9223372036854775807", "'with space'", "7", "'d'"]
CHECKS = ["x > 0", "length(x) < 10", "(x)", "x <> 'a'", "x > 0", "x + 1 > 2", "x < 100", "abs(x) > 1"]
RARE_CHECKS = ["x IN (1,2,3)", "x BETWEEN 1 AND 5", "x LIKE 'a%'", "x IS NOT NULL", "x = 1 OR x = 2", "x >= 1 AND x <= 9"]


def strip_quotes(name):
    if not name:
        return name
    if name[0] == '"' and name[-1] == '"':
        return name[1:-1].replace('""', '"')
    if name[0] == '[' and name[-1] == ']':
        return name[1:-1]
    if name[0] == '`' and name[-1] == '`':
        return name[1:-1].replace('``', '`')
    return name


class Gen:
    def __init__(self, seed):
        self.r = random.Random(seed)

    def coin(self, p):
        return self.r.random() < p

    strict = False

    def column(self, name, allow_pk, tabcols):
        r = self.r
        typ = r.choice(TYPES)
        if self.coin(0.02):
            typ = r.choice(RARE_TYPES)
        if self.strict:
            typ = r.choice(["INT", "INTEGER", "REAL", "TEXT", "BLOB", "ANY", "integer", "Text", "INTEGER", "TEXT"])
        parts = []
        cons = []
        info = {"pk": False}
        if allow_pk and self.coin(0.35):
            d = r.choice(["", "", " ASC", " DESC"])
            s = "PRIMARY KEY" + d
            if strip_quotes(typ).upper() == "INTEGER" and d != " DESC" and self.coin(0.3):
                s += " AUTOINCREMENT"
            if self.coin(0.02):
                s += " ON CONFLICT " + r.choice(["ROLLBACK", "ABORT", "FAIL", "IGNORE", "REPLACE"])
            cons.append(s)
            info["pk"] = True
        if self.coin(0.25):
            cons.append("UNIQUE" + (" ON CONFLICT IGNORE" if self.coin(0.02) else ""))
        if self.coin(0.05) or (info["pk"] and self.coin(0.25)):
            cons.append("UNIQUE")  # duplicate
            if self.coin(0.5):
                cons.append("UNIQUE")
        if self.coin(0.25):
            cons.append("NOT NULL")
        if self.coin(0.05):
            cons.append("NULL")
        if self.coin(0.3):
            cons.append("DEFAULT " + r.choice(DEFAULTS))
        if self.coin(0.3):
            cons.append("COLLATE " + r.choice(COLLS))
        if self.coin(0.15):
            cons.append("CHECK (" + r.choice(CHECKS if self.coin(0.95) else RARE_CHECKS).replace("x", name) + ")")
        if self.coin(0.12):
            ref = "REFERENCES other(" + r.choice(["id", "a"]) + ")"
            if self.coin(0.4):
                ref += " ON DELETE " + r.choice(["CASCADE", "SET NULL", "RESTRICT", "NO ACTION", "SET DEFAULT"])
            if self.coin(0.3):
                ref += " ON UPDATE " + r.choice(["CASCADE", "SET NULL"])
            if self.coin(0.2):
                ref += " DEFERRABLE INITIALLY DEFERRED"
            cons.append(ref)
        r.shuffle(cons)
        out = name
        if typ:
            out += " " + typ
        for c in cons:
            if self.coin(0.01):
                out += " CONSTRAINT cn%d" % r.randint(0, 99)
            out += " " + c
        return out, info

    def respell(self, n):
        """another spelling of the same identifier (SQL identifiers are case-insensitive)"""
        r = self.r
        if n[0] in '"[`' or not n.isascii() or not self.coin(0.25):
            return n
        return r.choice([n.upper(), n.lower(), n.capitalize(), n.swapcase()])

    def indexed_cols(self, names, maxn=3, allow_expr=False):
        r = self.r
        k = r.randint(1, min(maxn, len(names)))
        chosen = r.sample(names, k)
        out = []
        if len(chosen) >= 2 and not allow_expr and self.coin(0.04):
            chosen.append(chosen[0])          # the same column twice in one constraint
        for n in chosen:
            n = self.respell(n)
            if n[0] not in '"[`' and n.isascii() and self.coin(0.03):
                n = "'%s'" % n                # a column name written as a string literal (also in CREATE INDEX)
            s = n
            if allow_expr and self.coin(0.12):
                s = r.choice(["%s + 1", "lower(%s)", "%s || 'x'", "abs(%s)", "%s * 2", "length(%s)"]) % n
            if self.coin(0.3):
                s += " COLLATE " + r.choice(COLLS)
            if self.coin(0.35):
                s += r.choice([" ASC", " DESC", " DESC"])
            out.append(s)
        return out

    def program(self, seq):
        r = self.r
        ncols = r.randint(1, 6)
        names = r.sample(COLNAMES, ncols)
        # case-insensitive uniqueness
        seen = set()
        uniq = []
        for n in names:
            k = "".join(ch.lower() if ch.isascii() else ch for ch in strip_quotes(n))
            if k not in seen:
                seen.add(k)
                uniq.append(n)
        names = uniq
        tname = r.choice(["t%d", "T%d", "\"t %d\"", "[tb %d]", "`tk%d`", "tbl_%d", "\"T\"\"%d\""]) % seq
        cols = []
        have_pk = False
        style = r.random()
        self.strict = self.coin(0.05)       # a STRICT table (SQLite 3.37+): only the six strict type names
        generated = []
        for ni, n in enumerate(names):
            if ni > 0 and not self.strict and self.coin(0.04):
                # a generated column (not stored when VIRTUAL, which is the default): "b AS (1)" is the shortest spelling
                ex = r.choice(["1", "7", "%s" % names[0], "%s + 1" % names[0], "'g'"])
                c = r.choice(["%s AS (%s)", "%s AS (%s) VIRTUAL", "%s AS (%s) STORED", "%s INT GENERATED ALWAYS AS (%s)", "%s GENERATED ALWAYS AS (%s) STORED"]) % (n, ex)
                cols.append(c)
                generated.append(ni)
                continue
            c, info = self.column(n, allow_pk=(not have_pk and style < 0.6), tabcols=names)
            have_pk = have_pk or info["pk"]
            cols.append(c)
        # comments are part of the text SQLite keeps in sqlite_master; "--1" must not be read as arithmetic
        if self.coin(0.08):
            k = r.randrange(len(cols))
            cols[k] = cols[k] + r.choice([" -- a note\n", " /* a note */", " --1\n", " /* multi\nline */ ", " -- it''s, (odd) \"chars\"\n"])
        if seq % 37 == 11:
            # a block comment that begins "/*/": it ends at the NEXT "*/", not at its own second character
            # (placed by seq, not by the PRNG: the rest of the corpus stays what it was)
            k = seq % len(cols)
            cols[k] = cols[k] + " /*/ , zz_hidden INTEGER /*/"
        tcons = []
        if not have_pk and self.coin(0.5):
            tcons.append("PRIMARY KEY (" + ", ".join(self.indexed_cols(names)) + ")" + (" ON CONFLICT REPLACE" if self.coin(0.02) else ""))
            have_pk = True
        dup_family = False
        if not have_pk and len(names) >= 2 and self.coin(0.06):
            # a key that names a column twice, next to UNIQUE constraints equal to the key as written / as shortened
            a, b = names[0], names[1]
            tcons.append("PRIMARY KEY (%s)" % ", ".join(r.choice([[a, b, a], [a, a, b], [b, a, b], [a, b, b]])))
            have_pk = True
            dup_family = True
            for u in r.sample([[a, b], [a, b, a], [b, a], [a, a, b], [b, a, b]], r.choice([1, 2])):
                tcons.append("UNIQUE (%s)" % ", ".join(u))
            if self.coin(0.5):
                r.shuffle(tcons)
        for _ in range(r.choice([0, 0, 1, 1, 2])):
            tcons.append("UNIQUE (" + ", ".join(self.indexed_cols(names)) + ")")
        if self.coin(0.03):
            tcons.append("CHECK (" + r.choice(CHECKS).replace("x", names[0]) + ")")
        if self.coin(0.12):
            tcons.append("FOREIGN KEY (" + names[0] + ") REFERENCES other(id)" + (" ON DELETE CASCADE" if self.coin(0.5) else ""))
        tcons2 = []
        for c in tcons:
            if self.coin(0.15):
                c = "CONSTRAINT tc%d %s" % (r.randint(0, 99), c)
            tcons2.append(c)
        suffix = ""
        if have_pk and self.coin(0.75 if dup_family else 0.3):
            suffix = r.choice([" WITHOUT ROWID", " without rowid", "WITHOUT ROWID"])
        if self.strict:
            if suffix:
                suffix = r.choice([" WITHOUT ROWID, STRICT", " STRICT, WITHOUT ROWID", " strict, without rowid"])
            else:
                suffix = r.choice([" STRICT", " strict"])
        self.strict = False
        indexes = []
        for k in range(r.choice([0, 1, 1, 2, 3])):
            iname = r.choice(["ix%d_%d", "\"ix %d %d\"", "IX%d_%d"]) % (seq, k)
            icols = self.indexed_cols(names, allow_expr=True)
            where = ""
            if self.coin(0.2):
                where = " WHERE " + r.choice(["%s IS NOT NULL", "%s > 5", "%s <> ''", "%s > 5", "%s < 'm'", "%s + 1 > 3"]) % names[0]
            indexes.append({"name": iname, "unique": self.coin(0.2), "cols": icols, "where": where})
        return {"name": tname, "cols": cols, "tcons": tcons2, "suffix": suffix, "indexes": indexes, "generated": generated, "names": names}


def table_sql(p, cols=None, tcons=None):
    cols = p["cols"] if cols is None else cols
    tcons = p["tcons"] if tcons is None else tcons
    return "CREATE TABLE %s (%s)%s" % (p["name"], ", ".join(list(cols) + list(tcons)), (" " + p["suffix"].strip()) if p["suffix"] else "")


def index_sql(p, ix, cols=None):
    cols = ix["cols"] if cols is None else cols
    return "CREATE %sINDEX %s ON %s (%s)%s" % ("UNIQUE " if ix["unique"] else "", ix["name"], p["name"], ", ".join(cols), ix["where"])


def sqlite_accepts(stmts):
    c = sqlite3.connect(":memory:")
    try:
        c.execute("create table other(id integer primary key, a unique)")
        for s in stmts:
            c.execute(s)
        return True
    except sqlite3.Error:
        return False
    finally:
        c.close()


def handle(req):
    import oracle
    g = Gen(int(req["seed"]))
    n = int(req["n"])
    path = req.get("path")
    want_variants = bool(req.get("variants"))
    conn = None
    if path:
        for p in (path, path + "-journal"):
            if os.path.exists(p):
                os.unlink(p)
        conn = sqlite3.connect(path, isolation_level=None)
        conn.text_factory = oracle.Text
        conn.execute("create table other(id integer primary key, a unique)")
        conn.execute("begin")
    out = []
    generated = 0
    rejected = 0
    for seq in range(n):
        p = g.program(seq)
        generated += 1
        tsql = table_sql(p)
        stmts = [tsql]
        ok_ix = []
        if not sqlite_accepts(stmts):
            rejected += 1
            continue
        for ix in p["indexes"]:
            s = index_sql(p, ix)
            if sqlite_accepts(stmts + [s]):
                stmts.append(s)
                ok_ix.append(ix)
        p["indexes"] = ok_ix
        rec = {"table": p, "sql": stmts}
        if conn is not None:
            try:
                conn.execute("savepoint s")
                for s in stmts:
                    conn.execute(s)
                ncol = len(p["cols"])
                stored = [j for j in range(ncol) if j not in p.get("generated", [])]
                collist = ""
                if len(stored) != ncol:
                    collist = "(" + ", ".join(p["names"][j] for j in stored) + ")"
                for rr in range(6):
                    vals = []
                    for j in stored:
                        k = (rr * 7 + j * 3 + seq) % 5
                        vals.append([rr * 10 + j + 1, "v%d_%d" % (rr, j), "V%d_%d " % (rr, j), 1.5 + rr + j, 100 - rr * 3 - j][k])
                    try:
                        conn.execute("insert or ignore into %s%s values(%s)" % (p["name"], collist, ",".join("?" * len(stored))), vals)
                    except sqlite3.Error:
                        pass
                conn.execute("release s")
            except sqlite3.Error:
                conn.execute("rollback to s")
                conn.execute("release s")
                rejected += 1
                continue
        if want_variants:
            vs = []
            cols, tcons = p["cols"], p["tcons"]
            elems = [("col", i) for i in range(len(cols))] + [("tcon", i) for i in range(len(tcons))]
            # deletions
            for kind, i in elems:
                c2 = [c for j, c in enumerate(cols) if not (kind == "col" and j == i)]
                t2 = [c for j, c in enumerate(tcons) if not (kind == "tcon" and j == i)]
                if not c2:
                    continue
                vs.append({"edit": "delete-%s" % kind, "cols": c2, "tcons": t2})
            # adjacent swaps
            for i in range(len(cols) - 1):
                c2 = list(cols)
                c2[i], c2[i + 1] = c2[i + 1], c2[i]
                vs.append({"edit": "swap-col", "cols": c2, "tcons": list(tcons)})
            for i in range(len(tcons) - 1):
                t2 = list(tcons)
                t2[i], t2[i + 1] = t2[i + 1], t2[i]
                vs.append({"edit": "swap-tcon", "cols": list(cols), "tcons": t2})
            # attribute-bearing neighbour inserted before each element
            for i in range(len(cols) + 1):
                c2 = list(cols)
                c2.insert(i, "zz_new TEXT COLLATE NOCASE DEFAULT 'n' NOT NULL UNIQUE REFERENCES other(id) ON DELETE CASCADE")
                vs.append({"edit": "insert-col", "cols": c2, "tcons": list(tcons)})
            good = []
            for v in vs:
                s = table_sql(p, v["cols"], v["tcons"])
                if sqlite_accepts([s]):
                    v["sql"] = s
                    good.append(v)
            rec["variants"] = good
            ivs = []
            for ix in ok_ix:
                ic = ix["cols"]
                cand = []
                for i in range(len(ic)):
                    if len(ic) > 1:
                        cand.append(("delete-icol", [c for j, c in enumerate(ic) if j != i]))
                for i in range(len(ic) - 1):
                    c2 = list(ic)
                    c2[i], c2[i + 1] = c2[i + 1], c2[i]
                    cand.append(("swap-icol", c2))
                for edit, c2 in cand:
                    s = index_sql(p, ix, c2)
                    if sqlite_accepts([tsql, s]):
                        ivs.append({"edit": edit, "index": ix["name"], "cols": c2, "sql": s})
            rec["index_variants"] = ivs
        out.append(rec)
    meta = None
    if conn is not None:
        conn.execute("commit")
        meta = oracle.table_meta(conn, with_counts=True)
        conn.close()
    return {"programs": out, "generated": generated, "rejected_by_sqlite": rejected, "meta": meta}
