#!/usr/bin/env python3
"""Hostile seed images for C05: a b-tree that is a layered DAG ("lattice"). W interior pages per level, every page of
a level names all W pages of the next level: every page has distinct children, there is no cycle and the tree is no
deeper than the reader allows, yet there are W^levels ways through it. (First built by a bug-hunt sub-agent.)

usage: lattice.py <outdir>    writes lattice-user.sqlite (table t root 2 and index ti root 3 are lattices),
                              lattice-master-rows.sqlite and lattice-master-empty.sqlite (sqlite_master is a lattice)
"""
import sqlite3, struct, os, sys
PS = 512


def interior(typ, children, cellfn, off=0):
    pg = bytearray(PS)
    pos = PS
    ptrs = []
    for i, ch in enumerate(children[:-1]):
        cell = cellfn(ch, i)
        pos -= len(cell)
        pg[pos:pos + len(cell)] = cell
        ptrs.append(pos)
    pg[off] = typ
    struct.pack_into('>HHHB', pg, off + 1, 0, len(ptrs), pos, 0)
    struct.pack_into('>I', pg, off + 8, children[-1])
    for i, q in enumerate(ptrs):
        struct.pack_into('>H', pg, off + 12 + 2 * i, q)
    return pg


tcell = lambda ch, i: struct.pack('>I', ch) + bytes([i + 1])
icell = lambda ch, i: struct.pack('>I', ch) + bytes([5, 3, 1, 1, i + 1, i + 1])  # record (int8 key, int8 rowid)


def user(outdir, W=3, levels=24):
    p = os.path.join(outdir, '_seed_user.db')
    if os.path.exists(p):
        os.remove(p)
    c = sqlite3.connect(p)
    c.execute('pragma page_size=512')
    c.execute('create table t(a)')
    c.execute('create index ti on t(a)')
    c.commit()
    c.close()
    seed = open(p, 'rb').read()
    os.remove(p)
    assert len(seed) == 3 * PS
    pages = {1: bytearray(seed[:PS])}
    nextfree = [4]

    def lattice(root, typ_int, typ_leaf, cellfn):
        lv = [[root]]
        for l in range(1, levels + 1):
            lv.append(list(range(nextfree[0], nextfree[0] + W)))
            nextfree[0] += W
        for l in range(levels):
            for pg in lv[l]:
                pages[pg] = interior(typ_int, lv[l + 1], cellfn)
        for pg in lv[levels]:
            b = bytearray(PS)
            b[0] = typ_leaf
            struct.pack_into('>HHHB', b, 1, 0, 0, PS, 0)
            pages[pg] = b
    lattice(2, 5, 13, tcell)
    lattice(3, 2, 10, icell)
    n = max(pages)
    out = bytearray(b''.join(bytes(pages[i]) for i in range(1, n + 1)))
    struct.pack_into('>I', out, 28, n)
    open(os.path.join(outdir, 'lattice-user.sqlite'), 'wb').write(out)


def master(outdir, name, W, levels, rows):
    p = os.path.join(outdir, '_seed_master.db')
    if os.path.exists(p):
        os.remove(p)
    c = sqlite3.connect(p)
    c.execute('pragma page_size=512')
    c.execute('create table t(a)')
    c.commit()
    c.close()
    seed = open(p, 'rb').read()
    os.remove(p)
    hdr = bytearray(seed[:100])
    lvl = lambda l: [2 + (l - 1) * W + i for i in range(W)]
    pages = [interior(5, lvl(1), tcell, off=100)]
    for l in range(1, levels):
        for i in range(W):
            pages.append(interior(5, lvl(l + 1), tcell))
    for i in range(W):
        pg = bytearray(PS)
        if rows:
            src = seed[:512]
            ncell = struct.unpack('>H', src[103:105])[0]
            cstart = struct.unpack('>H', src[105:107])[0]
            pg[cstart:] = src[cstart:]
            pg[0] = 0x0d
            struct.pack_into('>HHHB', pg, 1, 0, ncell, cstart, 0)
            pg[8:8 + 2 * ncell] = src[108:108 + 2 * ncell]
        else:
            pg[0] = 0x0d
            struct.pack_into('>HHHB', pg, 1, 0, 0, PS, 0)
        pages.append(pg)
    h = bytearray(hdr)
    struct.pack_into('>I', h, 28, len(pages))
    pages[0][:100] = h
    open(os.path.join(outdir, name), 'wb').write(b''.join(bytes(p) for p in pages))


if __name__ == '__main__':
    out = sys.argv[1]
    user(out)
    master(out, 'lattice-master-rows.sqlite', 3, 20, True)
    master(out, 'lattice-master-empty.sqlite', 3, 26, False)
