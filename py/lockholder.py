#!/usr/bin/env python3
"""Holds raw POSIX locks on SQLite's lock bytes of a file (not through SQLite).
usage: lockholder.py <path> <spec>   spec = comma list of range:TYPE, range in pending|reserved|shared, TYPE in RD|WR
Prints READY, then waits until stdin is closed."""
import sys, os, fcntl, struct
R = {"pending": (0x40000000, 1), "reserved": (0x40000001, 1), "shared": (0x40000002, 510)}
path, spec = sys.argv[1], sys.argv[2]
fd = os.open(path, os.O_RDWR)
for item in [s for s in spec.split(",") if s]:
    rng, typ = item.split(":")
    start, ln = R[rng]
    t = fcntl.F_RDLCK if typ == "RD" else fcntl.F_WRLCK
    fcntl.fcntl(fd, fcntl.F_SETLK, struct.pack("hhqqi4x", t, 0, start, ln, 0))
print("READY", flush=True)
sys.stdin.read()
