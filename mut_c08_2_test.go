package sqlittle_test

// Demonstration for C08 mutation 2: addOverflow() appends the tail of a
// one-page overflow chain in place, into the buffer of the cached btree page,
// over the neighbouring cell.
//
// Run from the worktree root:
//   cp /tmp/mut3/C08.out/2/mut_c08_2_test.go . && go test -vet=off -count=1 -run TestMutC08Alias .

import (
	"encoding/hex"
	"fmt"
	"os/exec"
	"path/filepath"
	"strings"
	"testing"

	"github.com/alicebob/sqlittle"
)

func c08py2(t *testing.T, file, script string) string {
	t.Helper()
	cmd := exec.Command("python3", "-c", `
import sqlite3, sys
c = sqlite3.connect(sys.argv[1], isolation_level=None)
def f(v):
    return v.hex() if isinstance(v, bytes) else str(v)
for stmt in sys.argv[2].split(";;"):
    for row in c.execute(stmt):
        print("|".join(f(v) for v in row))
c.close()
`, file, script)
	out, err := cmd.Output()
	if err != nil {
		t.Fatalf("python/sqlite: %v", err)
	}
	return string(out)
}

func c08dump2(t *testing.T, db *sqlittle.DB) string {
	t.Helper()
	b := &strings.Builder{}
	err := db.Select("t", func(r sqlittle.Row) {
		fmt.Fprintf(b, "%d|", r[0].(int64))
		switch v := r[1].(type) {
		case string:
			b.WriteString(v)
		case []byte:
			b.WriteString(hex.EncodeToString(v))
		default:
			fmt.Fprintf(b, "%v", v)
		}
		b.WriteString("\n")
	}, "id", "v")
	if err != nil {
		t.Fatalf("select: %v", err)
	}
	return b.String()
}

func TestMutC08Alias(t *testing.T) {
	file := filepath.Join(t.TempDir(), "ovfl.sqlite")

	// 1K pages: a table leaf cell keeps its payload local up to 989 bytes.
	// Row 2 has a payload of 990 bytes: 103 bytes stay in the leaf, 887 go
	// to a single overflow page. Row 1 (898 byte cell) sits right behind row
	// 2 in the same leaf.
	//
	// Row 2's blob is laid out so that the bytes which would land on row 1's
	// record header are a copy of that header: the damage then looks like
	// perfectly valid data.
	row1 := strings.Repeat("a", 891)
	blob := make([]byte, 986)
	for i := range blob {
		blob[i] = 'Y'
	}
	tail := blob[99:]                    // the part on the overflow page
	copy(tail[7:11], "\x04\x00\x8e\x03") // row 1: header size, NULL, text(891)
	for i := 11; i < len(tail); i++ {
		tail[i] = 'Z'
	}
	c08py2(t, file, fmt.Sprintf(`PRAGMA page_size=1024;;
CREATE TABLE t (id INTEGER PRIMARY KEY, v);;
INSERT INTO t VALUES (1, '%s');;
INSERT INTO t VALUES (2, x'%s')`, row1, hex.EncodeToString(blob)))

	want := c08py2(t, file, "SELECT id, v FROM t ORDER BY id")

	db, err := sqlittle.Open(file)
	if err != nil {
		t.Fatal(err)
	}
	defer db.Close()

	if have := c08dump2(t, db); have != want {
		t.Fatalf("first read differs from SQLite")
	}
	// nothing was written: the same read again, now served from the page cache
	if have := c08dump2(t, db); have != want {
		h, w := strings.Split(have, "\n"), strings.Split(want, "\n")
		for i := range w {
			if i < len(h) && h[i] != w[i] {
				t.Errorf("row %d: have %.40s...%s\n        want %.40s...%s", i+1, h[i], h[i][len(h[i])-20:], w[i], w[i][len(w[i])-20:])
			}
		}
		t.Fatalf("second read (no write in between) differs from the first one and from SQLite (rows: have %d, want %d)", len(h)-1, len(w)-1)
	}
}
