/* mkformat <path> <legacy 0|1> <sql>...
 * Creates/opens a database with SQLITE_DBCONFIG_LEGACY_FILE_FORMAT set as
 * requested and executes the statements, so schema-format 1/2/3 files can be
 * produced (PRAGMA legacy_file_format is a no-op in SQLite 3.40).
 */
#include <sqlite3.h>
#include <stdio.h>
#include <stdlib.h>

int main(int argc, char **argv) {
    if (argc < 3) {
        fprintf(stderr, "usage: mkformat path legacy sql...\n");
        return 2;
    }
    sqlite3 *db;
    if (sqlite3_open(argv[1], &db) != SQLITE_OK) {
        fprintf(stderr, "open: %s\n", sqlite3_errmsg(db));
        return 1;
    }
    int out = -1;
    sqlite3_db_config(db, SQLITE_DBCONFIG_LEGACY_FILE_FORMAT, atoi(argv[2]), &out);
    for (int i = 3; i < argc; i++) {
        char *err = NULL;
        if (sqlite3_exec(db, argv[i], NULL, NULL, &err) != SQLITE_OK) {
            fprintf(stderr, "exec %s: %s\n", argv[i], err ? err : "?");
            return 1;
        }
    }
    sqlite3_close(db);
    return 0;
}
