/* LD_PRELOAD shim for a real SQLite writer process.
 *
 * Counts the file operations (write/pwrite/ftruncate/fsync/fdatasync/unlink and
 * fcntl lock requests) that touch files whose path starts with $CRASH_PATH and,
 * at chosen operation numbers, either kills the process (crash injection) or
 * freezes it until the harness releases it (schedule control).
 *
 *   CRASH_PATH    path prefix of the database (matches db and db-journal)
 *   CRASH_MODE    count | kill | torn | step
 *   CRASH_AT      operation number (1-based) for kill/torn; first stop for step
 *   CRASH_LOG     append one line per counted op: "<k> <kind> <name> <a> <b>"
 *   CRASH_NOTIFY  (step) fifo: shim writes "<k> <kind> <name> <a> <b>\n" before op k
 *   CRASH_RELEASE (step) fifo: shim then reads one byte before performing op k
 *   CRASH_LOCKS   if "0", lock ops are not counted (crash enumeration)
 *
 * kill: _exit(137) before performing op k.  torn: if op k is a write, perform
 * the first half of it, then _exit; otherwise like kill.
 */
#define _GNU_SOURCE
#include <dlfcn.h>
#include <fcntl.h>
#include <stdarg.h>
#include <stdio.h>
#include <stdlib.h>
#include <string.h>
#include <unistd.h>
#include <sys/types.h>
#include <sys/stat.h>
#include <errno.h>

static const char *g_path;
static size_t g_pathlen;
static int g_mode; /* 0 off, 1 count, 2 kill, 3 torn, 4 step */
static long g_at;
static long g_k;
static int g_logfd = -1;
static int g_notify = -1, g_release = -1;
static int g_locks = 1;
static int g_init;

static ssize_t (*real_write)(int, const void *, size_t);
static ssize_t (*real_pwrite64)(int, const void *, size_t, off64_t);
static ssize_t (*real_pwrite)(int, const void *, size_t, off_t);
static int (*real_ftruncate)(int, off_t);
static int (*real_ftruncate64)(int, off64_t);
static int (*real_fsync)(int);
static int (*real_fdatasync)(int);
static int (*real_unlink)(const char *);
static int (*real_fcntl)(int, int, ...);
static int (*real_fcntl64)(int, int, ...);
static ssize_t (*real_read)(int, void *, size_t);

static void init(void) {
    if (g_init) return;
    g_init = 1;
    real_write = dlsym(RTLD_NEXT, "write");
    real_pwrite64 = dlsym(RTLD_NEXT, "pwrite64");
    real_pwrite = dlsym(RTLD_NEXT, "pwrite");
    real_ftruncate = dlsym(RTLD_NEXT, "ftruncate");
    real_ftruncate64 = dlsym(RTLD_NEXT, "ftruncate64");
    real_fsync = dlsym(RTLD_NEXT, "fsync");
    real_fdatasync = dlsym(RTLD_NEXT, "fdatasync");
    real_unlink = dlsym(RTLD_NEXT, "unlink");
    real_fcntl = dlsym(RTLD_NEXT, "fcntl");
    real_fcntl64 = dlsym(RTLD_NEXT, "fcntl64");
    if (!real_fcntl64) real_fcntl64 = real_fcntl;
    real_read = dlsym(RTLD_NEXT, "read");
    g_path = getenv("CRASH_PATH");
    const char *m = getenv("CRASH_MODE");
    if (!g_path || !m) { g_mode = 0; return; }
    g_pathlen = strlen(g_path);
    if (!strcmp(m, "count")) g_mode = 1;
    else if (!strcmp(m, "kill")) g_mode = 2;
    else if (!strcmp(m, "torn")) g_mode = 3;
    else if (!strcmp(m, "step")) g_mode = 4;
    const char *a = getenv("CRASH_AT");
    g_at = a ? atol(a) : 0;
    const char *lk = getenv("CRASH_LOCKS");
    if (lk && !strcmp(lk, "0")) g_locks = 0;
    const char *lg = getenv("CRASH_LOG");
    if (lg) g_logfd = open(lg, O_WRONLY | O_CREAT | O_APPEND, 0644);
    if (g_mode == 4) {
        const char *n = getenv("CRASH_NOTIFY"), *r = getenv("CRASH_RELEASE");
        if (n) g_notify = open(n, O_WRONLY);
        if (r) g_release = open(r, O_RDONLY);
    }
}

/* returns pointer to the part of the path after the prefix ("" for the db,
 * "-journal" for the journal) or NULL if fd is not one of ours */
static const char *fd_name(int fd, char *buf, size_t n) {
    char link[64];
    snprintf(link, sizeof link, "/proc/self/fd/%d", fd);
    ssize_t l = readlink(link, buf, n - 1);
    if (l <= 0) return NULL;
    buf[l] = 0;
    /* deleted files show up as "path (deleted)" */
    if (strncmp(buf, g_path, g_pathlen) != 0) return NULL;
    return buf + g_pathlen;
}

static const char *short_name(const char *suffix) {
    if (!suffix || !*suffix) return "db";
    if (!strncmp(suffix, "-journal", 8)) return "journal";
    if (!strncmp(suffix, "-wal", 4)) return "wal";
    if (!strncmp(suffix, "-shm", 4)) return "shm";
    return "other";
}

/* Called before a counted op. Returns 1 if a torn write should be done and
 * then the process must exit. */
static int before_op(const char *kind, const char *name, long long a, long long b) {
    long k = ++g_k;
    char line[160];
    int len = snprintf(line, sizeof line, "%ld %s %s %lld %lld\n", k, kind, name, a, b);
    if (g_logfd >= 0) real_write(g_logfd, line, len);
    if (g_mode == 2 && k == g_at) _exit(137);
    if (g_mode == 3 && k == g_at) {
        if (!strcmp(kind, "write")) return 1;
        _exit(137);
    }
    if (g_mode == 4 && k >= g_at && g_notify >= 0 && g_release >= 0) {
        real_write(g_notify, line, len);
        char c;
        ssize_t r;
        do { r = real_read(g_release, &c, 1); } while (r < 0 && errno == EINTR);
        if (r <= 0) { /* harness went away: stop stepping */ g_mode = 1; }
        else if (c == 'K') _exit(137);
        else if (c == 'G') g_mode = 1; /* go: run to completion */
    }
    return 0;
}

ssize_t write(int fd, const void *buf, size_t n) {
    init();
    if (g_mode) {
        char p[4096];
        const char *s = fd_name(fd, p, sizeof p);
        if (s && before_op("write", short_name(s), (long long)n, -1)) {
            real_write(fd, buf, n / 2);
            _exit(137);
        }
    }
    return real_write(fd, buf, n);
}

ssize_t pwrite64(int fd, const void *buf, size_t n, off64_t off) {
    init();
    if (g_mode) {
        char p[4096];
        const char *s = fd_name(fd, p, sizeof p);
        if (s && before_op("write", short_name(s), (long long)n, (long long)off)) {
            real_pwrite64(fd, buf, n / 2, off);
            _exit(137);
        }
    }
    return real_pwrite64(fd, buf, n, off);
}

ssize_t pwrite(int fd, const void *buf, size_t n, off_t off) {
    init();
    if (g_mode) {
        char p[4096];
        const char *s = fd_name(fd, p, sizeof p);
        if (s && before_op("write", short_name(s), (long long)n, (long long)off)) {
            real_pwrite(fd, buf, n / 2, off);
            _exit(137);
        }
    }
    return real_pwrite(fd, buf, n, off);
}

int ftruncate(int fd, off_t len) {
    init();
    if (g_mode) {
        char p[4096];
        const char *s = fd_name(fd, p, sizeof p);
        if (s) before_op("truncate", short_name(s), (long long)len, -1);
    }
    return real_ftruncate(fd, len);
}

int ftruncate64(int fd, off64_t len) {
    init();
    if (g_mode) {
        char p[4096];
        const char *s = fd_name(fd, p, sizeof p);
        if (s) before_op("truncate", short_name(s), (long long)len, -1);
    }
    return real_ftruncate64(fd, len);
}

int fsync(int fd) {
    init();
    if (g_mode) {
        char p[4096];
        const char *s = fd_name(fd, p, sizeof p);
        if (s) before_op("sync", short_name(s), -1, -1);
    }
    return real_fsync(fd);
}

int fdatasync(int fd) {
    init();
    if (g_mode) {
        char p[4096];
        const char *s = fd_name(fd, p, sizeof p);
        if (s) before_op("sync", short_name(s), -1, -1);
    }
    return real_fdatasync(fd);
}

int unlink(const char *path) {
    init();
    if (g_mode && path && strncmp(path, g_path, g_pathlen) == 0)
        before_op("unlink", short_name(path + g_pathlen), -1, -1);
    return real_unlink(path);
}

static int do_fcntl(int (*real)(int, int, ...), int fd, int cmd, void *arg) {
    if (g_mode && g_locks && (cmd == F_SETLK || cmd == F_SETLKW
#ifdef F_OFD_SETLK
        || cmd == F_OFD_SETLK || cmd == F_OFD_SETLKW
#endif
        ) && arg) {
        char p[4096];
        const char *s = fd_name(fd, p, sizeof p);
        if (s) {
            struct flock *fl = (struct flock *)arg;
            const char *t = fl->l_type == F_RDLCK ? "lockRD" : fl->l_type == F_WRLCK ? "lockWR" : "lockUN";
            before_op(t, short_name(s), (long long)fl->l_start, (long long)fl->l_len);
        }
    }
    return real(fd, cmd, arg);
}

int fcntl(int fd, int cmd, ...) {
    init();
    va_list ap;
    va_start(ap, cmd);
    void *arg = va_arg(ap, void *);
    va_end(ap);
    return do_fcntl(real_fcntl, fd, cmd, arg);
}

int fcntl64(int fd, int cmd, ...) {
    init();
    va_list ap;
    va_start(ap, cmd);
    void *arg = va_arg(ap, void *);
    va_end(ap);
    return do_fcntl(real_fcntl64, fd, cmd, arg);
}
