package sqlittle_test

// Demonstration for C09 mutation 1: a writer on a database with 64KiB pages is
// killed in the middle of a transaction, after it already spilled dirty pages
// into the database file. The journal it leaves behind is hot; reading must
// fail (ErrHotJournal) or at least never show the unfinished transaction.

import (
	"os"
	"os/exec"
	"path/filepath"
	"testing"

	"github.com/alicebob/sqlittle"
)

const mut1Writer = `
import sqlite3, sys, os
f = sys.argv[1]
c = sqlite3.connect(f, isolation_level=None)
c.execute("PRAGMA page_size=65536")
c.execute("PRAGMA journal_mode=DELETE")
c.execute("CREATE TABLE t (id INTEGER PRIMARY KEY, v INTEGER, pad TEXT)")
c.execute("BEGIN")
for i in range(1, 3001):
    c.execute("INSERT INTO t VALUES (?, 0, ?)", (i, "x" * 400))
c.execute("COMMIT")
c.close()

c = sqlite3.connect(f, isolation_level=None)
c.execute("PRAGMA cache_size=2")
c.execute("BEGIN")
c.execute("UPDATE t SET v = 1")
# die without commit or rollback: hot journal stays behind
os._exit(0)
`

func TestC09Mut1PageSize64K(t *testing.T) {
	dir := t.TempDir()
	file := filepath.Join(dir, "big.sqlite")
	if out, err := exec.Command("python3", "-c", mut1Writer, file).CombinedOutput(); err != nil {
		t.Fatalf("writer: %s: %s", err, out)
	}
	st, err := os.Stat(file + "-journal")
	if err != nil || st.Size() == 0 {
		t.Fatalf("setup problem: no journal left behind: %v", err)
	}

	db, err := sqlittle.Open(file)
	if err != nil {
		t.Logf("Open refused: %v (fine)", err)
		return
	}
	defer db.Close()

	rows, dirty := 0, 0
	err = db.Select("t", func(r sqlittle.Row) {
		var v int64
		if err := r.Scan(&v); err != nil {
			t.Fatal(err)
		}
		rows++
		if v != 0 {
			dirty++
		}
	}, "v")
	if err != nil {
		t.Logf("Select refused: %v (fine)", err)
		return
	}
	if dirty != 0 || rows != 3000 {
		t.Fatalf("read the crashed writer's unfinished transaction: %d rows, %d of them with the uncommitted value, no error", rows, dirty)
	}
	// No error, but the spilled pages aren't visible? Then the setup didn't
	// spill; still a hot journal was ignored.
	t.Fatalf("hot journal was ignored (no error on Open/Select)")
}
