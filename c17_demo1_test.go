package sqlittle_test

// C17 demo 1: a scan which is stopped early must not change what later scans
// on the same handle deliver.
//
// Needs c17_demo1.sqlite (see mkdb.py) in the directory the test runs in.

import (
	"fmt"
	"testing"

	"github.com/alicebob/sqlittle"
	sdb "github.com/alicebob/sqlittle/db"
)

const c17demo1File = "c17_demo1.sqlite"

func c17demo1Word(i int) string {
	w := fmt.Sprintf("w%04d-", i)
	for j := 0; j < i%17; j++ {
		w += "x"
	}
	return w
}

// high level: SelectDone on a WITHOUT ROWID table
func TestC17Demo1SelectDone(t *testing.T) {
	db, err := sqlittle.Open(c17demo1File)
	if err != nil {
		t.Fatal(err)
	}
	defer db.Close()

	scan := func(k int) []string {
		var got []string
		calls := 0
		err := db.SelectDone("words", func(r sqlittle.Row) bool {
			calls++
			var w string
			if err := r.Scan(&w); err != nil {
				t.Fatal(err)
			}
			got = append(got, w)
			return len(got) == k
		}, "word")
		if err != nil {
			t.Fatalf("k=%d: %s", k, err)
		}
		if calls != len(got) {
			t.Fatalf("k=%d: callback count", k)
		}
		return got
	}

	for _, k := range []int{3, 7, 400, 2, 400} {
		got := scan(k)
		if len(got) != k {
			t.Fatalf("stop after %d rows: got %d rows", k, len(got))
		}
		for i, w := range got {
			if want := c17demo1Word(i); w != want {
				t.Fatalf("stop after %d rows: row %d is %q, want %q", k, i, w, want)
			}
		}
	}
}

// low level: Index.Scan on a normal index
func TestC17Demo1IndexScan(t *testing.T) {
	d, err := sdb.OpenFile(c17demo1File)
	if err != nil {
		t.Fatal(err)
	}
	defer d.Close()
	if err := d.RLock(); err != nil {
		t.Fatal(err)
	}
	defer d.RUnlock()

	ind, err := d.Index("plain_word")
	if err != nil {
		t.Fatal(err)
	}
	for _, k := range []int{5, 400} {
		var got []string
		if err := ind.Scan(func(r sdb.Record) bool {
			got = append(got, r[0].(string))
			return len(got) == k
		}); err != nil {
			t.Fatal(err)
		}
		if len(got) != k {
			t.Fatalf("stop after %d rows: got %d rows", k, len(got))
		}
		for i, w := range got {
			if want := c17demo1Word(i); w != want {
				t.Fatalf("stop after %d rows: row %d is %q, want %q", k, i, w, want)
			}
		}
	}
}
