package sqlittle_test

// C18 demo 2: every stored integer scans to exactly that integer, for every
// destination type. demo2.sqlite: CREATE TABLE nums (id integer primary key, v)
// with the values -2^b, -2^b+1, 2^b-1, -2^b-1, 2^b around every integer
// storage width b = 7, 15, 23, 31, 47, 63 (in that order, ids 1..30).

import (
	"os"
	"strconv"
	"testing"

	"github.com/alicebob/sqlittle"
)

func demo2DB() string {
	if f := os.Getenv("C18_DEMO_DB"); f != "" {
		return f
	}
	return "demo2.sqlite"
}

func TestC18Demo2(t *testing.T) {
	var want []int64
	for _, b := range []uint{7, 15, 23, 31, 47, 63} {
		if b < 63 {
			want = append(want, -(1 << b), -(1<<b)+1, (1<<b)-1, -(1<<b)-1, 1<<b)
		} else {
			want = append(want, -1<<63, -1<<63+1, 1<<63-1, 0, 1)
		}
	}

	db, err := sqlittle.Open(demo2DB())
	if err != nil {
		t.Fatal(err)
	}
	defer db.Close()

	n := 0
	err = db.Select("nums", func(r sqlittle.Row) {
		var (
			id int64
			i  int64
			s  string
			f  float64
			b  []byte
		)
		if err := r.Scan(&id, &i); err != nil {
			t.Fatal(err)
		}
		if err := r.Scan(nil, &s); err != nil {
			t.Fatal(err)
		}
		if err := r.Scan(nil, &f); err != nil {
			t.Fatal(err)
		}
		if err := r.Scan(nil, &b); err != nil {
			t.Fatal(err)
		}
		w := want[id-1]
		if i != w {
			t.Errorf("id %d: int64: have %d, want %d", id, i, w)
		}
		if ws := strconv.FormatInt(w, 10); s != ws || string(b) != ws {
			t.Errorf("id %d: string/[]byte: have %q/%q, want %q", id, s, b, ws)
		}
		if f != float64(w) {
			t.Errorf("id %d: float64: have %v, want %v", id, f, float64(w))
		}
		n++
	}, "id", "v")
	if err != nil {
		t.Fatal(err)
	}
	if n != len(want) {
		t.Fatalf("have %d rows, want %d", n, len(want))
	}
}
