package hx

import (
	"encoding/binary"
	"fmt"
)

// Independent reader of the SQLite file format. Used ONLY to choose inputs
// (separator keys, leaf boundaries, field offsets to mutate) and to report
// coverage; it is never an oracle.

type WCell struct {
	Off        int // offset of the cell inside the page
	LeftChild  uint32
	HasLeft    bool
	PayloadLen int64
	PLOff, PLN int // payload-length varint: offset in page, length
	Rowid      int64
	RowidOff   int
	RowidN     int
	LocalOff   int // offset in page of local payload
	LocalLen   int
	Overflow   uint32
	OvflOff    int // offset in page of the 4-byte overflow pointer (0 if none)
}

type WPage struct {
	No        int
	Kind      byte // 0x0d table leaf, 0x05 table interior, 0x0a index leaf, 0x02 index interior
	HdrOff    int  // 100 on page 1
	NCells    int
	PtrOff    int // offset in page of the cell pointer array
	RightMost uint32
	Cells     []WCell
	Parent    int
	Level     int // 1 = root
}

func (p *WPage) Interior() bool { return p.Kind == 0x05 || p.Kind == 0x02 }
func (p *WPage) IsIndex() bool  { return p.Kind == 0x0a || p.Kind == 0x02 }

func wVarint(b []byte) (int64, int) {
	var n uint64
	for i := 0; i < 9; i++ {
		if i >= len(b) {
			return 0, -1
		}
		c := b[i]
		if i == 8 {
			n = (n << 8) | uint64(c)
			return int64(n), 9
		}
		n = (n << 7) | uint64(c&0x7f)
		if c < 0x80 {
			return int64(n), i + 1
		}
	}
	return 0, -1
}

// LocalPayload computes the local payload size per the file format.
func LocalPayload(total int64, pageSize int, index bool) int {
	u := int64(pageSize)
	x := u - 35
	if index {
		x = ((u-12)*64/255 - 23)
	}
	m := ((u-12)*32/255 - 23)
	if total <= x {
		return int(total)
	}
	k := m + ((total - m) % (u - 4))
	if k <= x {
		return int(k)
	}
	return int(m)
}

// ParsePage parses one b-tree page. data is the whole file.
func ParsePage(data []byte, pageSize, no int) (*WPage, error) {
	start := (no - 1) * pageSize
	if no < 1 || start+pageSize > len(data) {
		return nil, fmt.Errorf("page %d out of range", no)
	}
	pg := data[start : start+pageSize]
	p := &WPage{No: no}
	if no == 1 {
		p.HdrOff = 100
	}
	h := pg[p.HdrOff:]
	p.Kind = h[0]
	switch p.Kind {
	case 0x0d, 0x0a, 0x05, 0x02:
	default:
		return nil, fmt.Errorf("page %d: not a b-tree page (type %#x)", no, p.Kind)
	}
	p.NCells = int(binary.BigEndian.Uint16(h[3:5]))
	hl := 8
	if p.Interior() {
		hl = 12
		p.RightMost = binary.BigEndian.Uint32(h[8:12])
	}
	p.PtrOff = p.HdrOff + hl
	for i := 0; i < p.NCells; i++ {
		po := p.PtrOff + 2*i
		if po+2 > len(pg) {
			return nil, fmt.Errorf("page %d: pointer array overruns", no)
		}
		off := int(binary.BigEndian.Uint16(pg[po : po+2]))
		if off >= len(pg) {
			return nil, fmt.Errorf("page %d: cell offset", no)
		}
		c := WCell{Off: off}
		cur := off
		if p.Interior() {
			c.HasLeft = true
			c.LeftChild = binary.BigEndian.Uint32(pg[cur : cur+4])
			cur += 4
		}
		if p.Kind == 0x05 {
			v, n := wVarint(pg[cur:])
			if n < 0 {
				return nil, fmt.Errorf("page %d: varint", no)
			}
			c.Rowid, c.RowidOff, c.RowidN = v, cur, n
			p.Cells = append(p.Cells, c)
			continue
		}
		v, n := wVarint(pg[cur:])
		if n < 0 {
			return nil, fmt.Errorf("page %d: varint", no)
		}
		c.PayloadLen, c.PLOff, c.PLN = v, cur, n
		cur += n
		if p.Kind == 0x0d {
			v, n := wVarint(pg[cur:])
			if n < 0 {
				return nil, fmt.Errorf("page %d: varint", no)
			}
			c.Rowid, c.RowidOff, c.RowidN = v, cur, n
			cur += n
		}
		c.LocalOff = cur
		c.LocalLen = LocalPayload(c.PayloadLen, pageSize, p.IsIndex())
		if int64(c.LocalLen) < c.PayloadLen {
			c.OvflOff = cur + c.LocalLen
			if c.OvflOff+4 <= len(pg) {
				c.Overflow = binary.BigEndian.Uint32(pg[c.OvflOff : c.OvflOff+4])
			}
		}
		p.Cells = append(p.Cells, c)
	}
	return p, nil
}

// WalkTree returns the pages of the b-tree rooted at root in depth-first,
// left-to-right order (so leaves appear in key order).
func WalkTree(data []byte, pageSize, root int) ([]*WPage, error) {
	var out []*WPage
	var rec func(no, parent, level int) error
	rec = func(no, parent, level int) error {
		if level > 40 {
			return fmt.Errorf("too deep")
		}
		p, err := ParsePage(data, pageSize, no)
		if err != nil {
			return err
		}
		p.Parent, p.Level = parent, level
		out = append(out, p)
		if p.Interior() {
			for _, c := range p.Cells {
				if err := rec(int(c.LeftChild), no, level+1); err != nil {
					return err
				}
			}
			return rec(int(p.RightMost), no, level+1)
		}
		return nil
	}
	err := rec(root, 0, 1)
	return out, err
}

// OverflowChain lists the overflow pages of a cell.
func OverflowChain(data []byte, pageSize int, first uint32) []int {
	var out []int
	seen := map[uint32]bool{}
	for p := first; p != 0 && !seen[p]; {
		seen[p] = true
		start := (int(p) - 1) * pageSize
		if start < 0 || start+4 > len(data) {
			break
		}
		out = append(out, int(p))
		p = binary.BigEndian.Uint32(data[start : start+4])
	}
	return out
}

// PageSizeOf reads the page size from a file header.
func PageSizeOf(data []byte) int {
	if len(data) < 100 {
		return 0
	}
	s := int(binary.BigEndian.Uint16(data[16:18]))
	if s == 1 {
		s = 65536
	}
	return s
}

// RecordLayout describes where the pieces of a record header are.
type RecordLayout struct {
	HdrSize      int64
	HdrSizeN     int
	SerialOffs   []int // offset (in the payload) of each serial-type varint
	SerialLens   []int
	SerialTypes  []int64
	BodyOff      int
	CompleteBody bool
}

// ParseRecordLayout parses the header of a record payload (local part is enough).
func ParseRecordLayout(pl []byte) (*RecordLayout, bool) {
	hs, n := wVarint(pl)
	if n < 0 || hs < int64(n) || hs > int64(len(pl)) {
		return nil, false
	}
	rl := &RecordLayout{HdrSize: hs, HdrSizeN: n, BodyOff: int(hs)}
	cur := n
	for cur < int(hs) {
		v, m := wVarint(pl[cur:int(hs)])
		if m < 0 {
			return nil, false
		}
		rl.SerialOffs = append(rl.SerialOffs, cur)
		rl.SerialLens = append(rl.SerialLens, m)
		rl.SerialTypes = append(rl.SerialTypes, v)
		cur += m
	}
	return rl, true
}
