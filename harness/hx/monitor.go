package hx

import (
	"crypto/sha1"
	"encoding/hex"
	"encoding/json"
	"fmt"
	"hash/fnv"
	"os"
	"path/filepath"
	"sort"
	"strings"
	"sync"
	"time"
)

func timeAfter(sec int) <-chan time.Time { return time.After(time.Duration(sec) * time.Second) }

// KnownFinding is one entry of /verif/known_findings.json (never written at run time).
type KnownFinding struct {
	Property string `json:"property"`
	Key      string `json:"key"`
	Status   string `json:"status"` // open | fixed
	Commit   string `json:"commit,omitempty"`
	What     string `json:"what"`
}

// Violation is one refuting observation.
type Violation struct {
	Key    string      `json:"key"`
	What   string      `json:"what"`
	Replay string      `json:"replay"`
	Detail interface{} `json:"detail,omitempty"`
}

// Run collects what one check execution observed and decides the exit status.
type Run struct {
	Prop  string
	Tier  string
	Seed  int64
	Level string
	Rule  string

	Assumptions []string
	Exhaustive  bool
	OnlyKey     string // replay mode: only this violation key counts

	mu         sync.Mutex
	start      time.Time
	evals      int64
	distinct   map[uint64]struct{}
	distinctN  int64 // distinct by construction (enumerated spaces), added to len(distinct)
	counters   map[string]int64
	sets       map[string]map[string]int64
	samples    []interface{}
	maxSamples int
	viol       []Violation
	violKeys   map[string]int
	violTotal  int64
	known      map[string]int64
	knownWhat  map[string]string
	inconcl    []string
	findings   []KnownFinding
	extra      map[string]interface{}
}

func NewRun(prop, tier string, seed int64, level string) *Run {
	r := &Run{Prop: prop, Tier: tier, Seed: seed, Level: level,
		start: time.Now(), distinct: map[uint64]struct{}{}, counters: map[string]int64{},
		sets: map[string]map[string]int64{}, maxSamples: 8, violKeys: map[string]int{},
		known: map[string]int64{}, knownWhat: map[string]string{}, extra: map[string]interface{}{}}
	r.OnlyKey = os.Getenv("VERIF_ONLY_KEY")
	b, err := os.ReadFile(filepath.Join(VerifDir(), "known_findings.json"))
	if err == nil {
		var all []KnownFinding
		if err := json.Unmarshal(b, &all); err != nil {
			r.Inconclusive("known_findings.json unreadable: " + err.Error())
		}
		for _, f := range all {
			if f.Property == prop {
				r.findings = append(r.findings, f)
			}
		}
	}
	return r
}

func (r *Run) Thorough() bool { return r.Tier == "thorough" }

// Eval counts executions/cases.
func (r *Run) Eval(n int) {
	r.mu.Lock()
	r.evals += int64(n)
	r.mu.Unlock()
}

// Distinct records a distinct non-trivial case by its identifying key.
func (r *Run) Distinct(key string) {
	h := fnv.New64a()
	h.Write([]byte(key))
	r.mu.Lock()
	r.distinct[h.Sum64()] = struct{}{}
	r.mu.Unlock()
}

// DistinctN adds n cases that are distinct by construction (enumerated, de-duplicated spaces).
func (r *Run) DistinctN(n int) {
	r.mu.Lock()
	r.distinctN += int64(n)
	r.mu.Unlock()
}

// Count adds to a named counter reported under coverage.
func (r *Run) Count(name string, n int) {
	r.mu.Lock()
	r.counters[name] += int64(n)
	r.mu.Unlock()
}

// See records an observed coverage class value.
func (r *Run) See(class, value string) {
	r.mu.Lock()
	s := r.sets[class]
	if s == nil {
		s = map[string]int64{}
		r.sets[class] = s
	}
	s[value]++
	r.mu.Unlock()
}

// SeeN records n observations of a coverage class value at once.
func (r *Run) SeeN(class, value string, n int64) {
	r.mu.Lock()
	s := r.sets[class]
	if s == nil {
		s = map[string]int64{}
		r.sets[class] = s
	}
	s[value] += n
	r.mu.Unlock()
}

// Seen reports how often a class value was observed.
func (r *Run) Seen(class, value string) int64 {
	r.mu.Lock()
	defer r.mu.Unlock()
	return r.sets[class][value]
}

// Sample keeps a few actual cases for the evidence file.
func (r *Run) Sample(x interface{}) {
	r.mu.Lock()
	if len(r.samples) < r.maxSamples {
		r.samples = append(r.samples, x)
	}
	r.mu.Unlock()
}

// SetExtra stores an additional coverage key.
func (r *Run) SetExtra(k string, v interface{}) {
	r.mu.Lock()
	r.extra[k] = v
	r.mu.Unlock()
}

// Inconclusive records that the monitor could not observe what it needs.
func (r *Run) Inconclusive(reason string) {
	r.mu.Lock()
	if len(r.inconcl) < 20 {
		r.inconcl = append(r.inconcl, reason)
	}
	r.mu.Unlock()
}

func (r *Run) matchKnown(key string) (KnownFinding, bool) {
	for _, f := range r.findings {
		if f.Status != "open" {
			continue
		}
		if f.Key == key {
			return f, true
		}
	}
	return KnownFinding{}, false
}

// Violation records a refuting observation. key classifies the failing case
// precisely enough that a different failure of the same property gets a
// different key. detail is written to the replay file.
func (r *Run) Violation(key, what string, detail interface{}) {
	r.mu.Lock()
	defer r.mu.Unlock()
	if r.OnlyKey != "" && key != r.OnlyKey {
		return
	}
	if f, ok := r.matchKnown(key); ok && r.OnlyKey == "" {
		r.known[key]++
		r.knownWhat[key] = f.What
		return
	}
	r.violTotal++
	if n, ok := r.violKeys[key]; ok {
		r.violKeys[key] = n + 1
		return
	}
	r.violKeys[key] = 1
	if len(r.viol) >= 40 {
		return
	}
	v := Violation{Key: key, What: what, Detail: detail}
	v.Replay = r.writeReplay(v)
	r.viol = append(r.viol, v)
}

func (r *Run) writeReplay(v Violation) string {
	dir := filepath.Join(VerifDir(), "replays", r.Prop)
	os.MkdirAll(dir, 0o755)
	sum := sha1.Sum([]byte(r.Prop + "\x00" + v.Key))
	p := filepath.Join(dir, hex.EncodeToString(sum[:8])+".json")
	b, _ := json.MarshalIndent(map[string]interface{}{
		"property": r.Prop, "tier": r.Tier, "seed": r.Seed, "key": v.Key, "what": v.What, "detail": v.Detail,
	}, "", " ")
	os.WriteFile(p, b, 0o644)
	return p
}

// ReplayDir returns (and creates) the directory for replay artefacts (input images etc).
func (r *Run) ReplayDir() string {
	dir := filepath.Join(VerifDir(), "replays", r.Prop)
	os.MkdirAll(dir, 0o755)
	return dir
}

// NViolations is the number of distinct new violation keys so far.
func (r *Run) NViolations() int {
	r.mu.Lock()
	defer r.mu.Unlock()
	return len(r.viol)
}

// Finish writes the evidence file, prints verdict lines and returns the exit code.
func (r *Run) Finish() int {
	r.mu.Lock()
	defer r.mu.Unlock()
	wall := time.Since(r.start).Seconds()

	cov := map[string]interface{}{}
	for k, v := range r.extra {
		cov[k] = v
	}
	cov["evaluations"] = r.evals
	cov["distinct_nontrivial"] = int64(len(r.distinct)) + r.distinctN
	cov["rule"] = r.Rule
	samples := r.samples
	if samples == nil {
		samples = []interface{}{}
	}
	cov["samples"] = samples
	if r.Exhaustive {
		cov["exhaustive"] = true
	}
	if len(r.counters) > 0 {
		cov["counters"] = r.counters
	}
	if len(r.sets) > 0 {
		classes := map[string]interface{}{}
		for k, s := range r.sets {
			if len(s) > 64 {
				classes[k] = map[string]interface{}{"distinct_values": len(s)}
			} else {
				classes[k] = s
			}
		}
		cov["classes_observed"] = classes
	}
	if len(r.known) > 0 {
		cov["known_findings_hit"] = r.known
	}
	if len(r.inconcl) > 0 {
		cov["inconclusive"] = r.inconcl
	}
	if len(r.viol) > 0 {
		cov["violation_keys"] = r.violKeys
	}
	ev := map[string]interface{}{
		"property_id": r.Prop, "tier": r.Tier, "seed": r.Seed, "level": r.Level,
		"coverage": cov, "assumptions": r.Assumptions, "wall_s": wall, "violations": len(r.viol),
	}
	// evidence is only written for runs against /repo itself (not for mutation-testing copies)
	if r.OnlyKey == "" && os.Getenv("VERIF_REPO") == "" {
		b, _ := json.MarshalIndent(ev, "", " ")
		dir := filepath.Join(VerifDir(), "evidence")
		os.MkdirAll(dir, 0o755)
		tmp := filepath.Join(dir, "."+r.Prop+".json.tmp")
		if err := os.WriteFile(tmp, append(b, '\n'), 0o644); err == nil {
			os.Rename(tmp, filepath.Join(dir, r.Prop+".json"))
		}
	}

	keys := make([]string, 0, len(r.known))
	for k := range r.known {
		keys = append(keys, k)
	}
	sort.Strings(keys)
	for _, k := range keys {
		fmt.Printf("KNOWN-FINDING: property=%s %s [%s] (hit %d times)\n", r.Prop, oneLine(r.knownWhat[k]), k, r.known[k])
	}
	for _, v := range r.viol {
		fmt.Printf("VIOLATION property=%s replay=%s\n", r.Prop, v.Replay)
		fmt.Printf("  key=%s\n  what=%s\n", v.Key, oneLine(v.What))
	}
	fmt.Printf("SUMMARY property=%s tier=%s seed=%d evaluations=%d distinct=%d violations=%d (total hits %d) known=%d wall=%.1fs\n",
		r.Prop, r.Tier, r.Seed, r.evals, int64(len(r.distinct))+r.distinctN, len(r.viol), r.violTotal, len(r.known), wall)
	if len(r.viol) > 0 {
		return 1
	}
	if len(r.inconcl) > 0 {
		for _, s := range r.inconcl {
			fmt.Printf("INCONCLUSIVE property=%s %s\n", r.Prop, oneLine(s))
		}
		return 2
	}
	if r.evals == 0 || int64(len(r.distinct))+r.distinctN < 2 {
		fmt.Printf("INCONCLUSIVE property=%s nothing observed (evaluations=%d distinct=%d)\n", r.Prop, r.evals, int64(len(r.distinct))+r.distinctN)
		return 2
	}
	return 0
}

func oneLine(s string) string {
	s = strings.ReplaceAll(s, "\n", " | ")
	if len(s) > 600 {
		s = s[:600] + "…"
	}
	return s
}

// ScratchDir makes a scratch directory for a run, outside /verif and /repo.
func ScratchDir(prop string) (string, func()) {
	base := os.Getenv("VERIF_SCRATCH")
	if base == "" {
		base = os.TempDir()
	}
	d, err := os.MkdirTemp(base, "verif-"+prop+"-")
	if err != nil {
		panic(err)
	}
	return d, func() { os.RemoveAll(d) }
}
