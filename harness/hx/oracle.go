package hx

import (
	"bufio"
	"encoding/json"
	"fmt"
	"io"
	"os"
	"os/exec"
	"path/filepath"
	"sync"
)

// VerifDir is the root of the verification tree (default /verif).
func VerifDir() string {
	if d := os.Getenv("VERIF_DIR"); d != "" {
		return d
	}
	return "/verif"
}

var pyOnce sync.Once
var pyExe string

// PythonExe resolves the real interpreter (not the pyenv shim), so LD_PRELOAD
// and process identities refer to the process that actually runs SQLite.
func PythonExe() string {
	pyOnce.Do(func() {
		out, err := exec.Command("python3", "-c", "import sys;print(sys.executable)").Output()
		if err == nil {
			for _, line := range splitLines(string(out)) {
				if len(line) > 0 && line[0] == '/' {
					pyExe = line
				}
			}
		}
		if pyExe == "" {
			pyExe = "python3"
		}
	})
	return pyExe
}

func splitLines(s string) []string {
	var out []string
	cur := ""
	for _, r := range s {
		if r == '\n' {
			out = append(out, cur)
			cur = ""
		} else if r != '\r' {
			cur += string(r)
		}
	}
	if cur != "" {
		out = append(out, cur)
	}
	return out
}

// Oracle is one long-lived python/SQLite process.
type Oracle struct {
	mu   sync.Mutex
	cmd  *exec.Cmd
	in   io.WriteCloser
	out  *bufio.Reader
	Pid  int
	dead error
}

// StartOracle launches py/oracle.py. extraEnv entries are "K=V".
func StartOracle(extraEnv ...string) (*Oracle, error) {
	cmd := exec.Command(PythonExe(), "-u", filepath.Join(VerifDir(), "py", "oracle.py"))
	cmd.Env = append(os.Environ(), extraEnv...)
	cmd.Stderr = os.Stderr
	in, err := cmd.StdinPipe()
	if err != nil {
		return nil, err
	}
	outp, err := cmd.StdoutPipe()
	if err != nil {
		return nil, err
	}
	if err := cmd.Start(); err != nil {
		return nil, err
	}
	o := &Oracle{cmd: cmd, in: in, out: bufio.NewReaderSize(outp, 1<<20), Pid: cmd.Process.Pid}
	var pong struct {
		Sqlite string `json:"sqlite"`
	}
	if err := o.Call(M{"op": "ping"}, &pong); err != nil {
		o.Close()
		return nil, fmt.Errorf("oracle ping: %w", err)
	}
	return o, nil
}

// M is a JSON object.
type M map[string]interface{}

// OracleError is an error reported by the oracle side (e.g. an sqlite error).
type OracleError struct {
	Msg  string
	Kind string
	Tb   string
}

func (e *OracleError) Error() string { return "oracle: " + e.Kind + ": " + e.Msg + e.Tb }

// Call sends one request and decodes the reply into out (may be nil).
func (o *Oracle) Call(req M, out interface{}) error {
	o.mu.Lock()
	defer o.mu.Unlock()
	if o.dead != nil {
		return o.dead
	}
	b, err := json.Marshal(req)
	if err != nil {
		return err
	}
	b = append(b, '\n')
	if _, err := o.in.Write(b); err != nil {
		o.dead = fmt.Errorf("oracle write: %w", err)
		return o.dead
	}
	line, err := o.out.ReadBytes('\n')
	if err != nil {
		o.dead = fmt.Errorf("oracle read: %w", err)
		return o.dead
	}
	var st struct {
		Ok   bool   `json:"ok"`
		Err  string `json:"err"`
		Kind string `json:"kind"`
		Tb   string `json:"tb"`
	}
	if err := json.Unmarshal(line, &st); err != nil {
		return fmt.Errorf("oracle reply: %w (%.200s)", err, line)
	}
	if !st.Ok {
		return &OracleError{Msg: st.Err, Kind: st.Kind, Tb: st.Tb}
	}
	if out != nil {
		return json.Unmarshal(line, out)
	}
	return nil
}

func (o *Oracle) Close() {
	if o == nil {
		return
	}
	o.in.Close()
	done := make(chan struct{})
	go func() { o.cmd.Wait(); close(done) }()
	select {
	case <-done:
	case <-timeAfter(3):
		o.cmd.Process.Kill()
		<-done
	}
}

// Query runs sql on path (transient connection) and returns typed rows.
func (o *Oracle) Query(path, sql string, params ...Value) ([]Row, error) {
	var rep struct {
		Rows [][]json.RawMessage `json:"rows"`
	}
	if err := o.Call(M{"op": "q", "path": path, "sql": sql, "params": EncodeRow(params)}, &rep); err != nil {
		return nil, err
	}
	return DecodeRows(rep.Rows)
}

// QueryConn runs sql on a persistent connection.
func (o *Oracle) QueryConn(id, sql string, params ...Value) ([]Row, error) {
	var rep struct {
		Rows [][]json.RawMessage `json:"rows"`
	}
	if err := o.Call(M{"op": "q", "id": id, "sql": sql, "params": EncodeRow(params)}, &rep); err != nil {
		return nil, err
	}
	return DecodeRows(rep.Rows)
}

// QueryMany runs one statement with many parameter sets.
func (o *Oracle) QueryMany(path, sql string, paramsets [][]Value) ([][]Row, error) {
	ps := make([][]interface{}, len(paramsets))
	for i, p := range paramsets {
		ps[i] = EncodeRow(p)
	}
	var rep struct {
		Results [][][]json.RawMessage `json:"results"`
	}
	if err := o.Call(M{"op": "qmany", "path": path, "sql": sql, "paramsets": ps}, &rep); err != nil {
		return nil, err
	}
	out := make([][]Row, len(rep.Results))
	for i, r := range rep.Results {
		rows, err := DecodeRows(r)
		if err != nil {
			return nil, err
		}
		out[i] = rows
	}
	return out, nil
}

// Script runs executescript on path.
func (o *Oracle) Script(path, sql string) error {
	return o.Call(M{"op": "script", "path": path, "sql": sql}, nil)
}

// Open a persistent connection.
func (o *Oracle) Open(id, path string, timeout float64) error {
	return o.Call(M{"op": "open", "id": id, "path": path, "timeout": timeout}, nil)
}

func (o *Oracle) OpenURI(id, uri string, timeout float64) error {
	return o.Call(M{"op": "open", "id": id, "path": uri, "uri": true, "timeout": timeout}, nil)
}

func (o *Oracle) CloseConn(id string) error {
	return o.Call(M{"op": "close", "id": id}, nil)
}

// ExecConn executes statements on a persistent connection.
func (o *Oracle) ExecConn(id string, stmts ...string) error {
	ss := make([]interface{}, len(stmts))
	for i, s := range stmts {
		ss[i] = s
	}
	return o.Call(M{"op": "exec", "id": id, "stmts": ss}, nil)
}

// Exec executes statements on a transient connection.
func (o *Oracle) Exec(path string, stmts ...string) error {
	ss := make([]interface{}, len(stmts))
	for i, s := range stmts {
		ss[i] = s
	}
	return o.Call(M{"op": "exec", "path": path, "stmts": ss}, nil)
}

// LockState is what F_GETLK(F_WRLCK) from the oracle process reports.
type LockState struct {
	Type string `json:"type"` // UN, RD, WR
	Pid  int    `json:"pid"`
}

type Locks struct {
	Pending  LockState `json:"pending"`
	Reserved LockState `json:"reserved"`
	Shared   LockState `json:"shared"`
}

func (l Locks) String() string {
	return fmt.Sprintf("P=%s R=%s S=%s", l.Pending.Type, l.Reserved.Type, l.Shared.Type)
}

// GetLk probes the three SQLite lock ranges from the oracle process.
func (o *Oracle) GetLk(path string) (Locks, error) {
	var rep struct {
		Locks Locks `json:"locks"`
	}
	err := o.Call(M{"op": "getlk", "path": path}, &rep)
	return rep.Locks, err
}

// Dump returns every user table's rows (rowid first for rowid tables).
func (o *Oracle) Dump(path string) (map[string][]Row, error) {
	var rep struct {
		Tables map[string][][]json.RawMessage `json:"tables"`
	}
	if err := o.Call(M{"op": "dump", "path": path}, &rep); err != nil {
		return nil, err
	}
	return decodeTables(rep.Tables)
}

func decodeTables(in map[string][][]json.RawMessage) (map[string][]Row, error) {
	out := map[string][]Row{}
	for k, v := range in {
		rows, err := DecodeRows(v)
		if err != nil {
			return nil, err
		}
		out[k] = rows
	}
	return out, nil
}

// Recover copies (src, src-journal) to dst, lets SQLite recover dst, dumps it.
func (o *Oracle) Recover(src, dst string) (map[string][]Row, []string, error) {
	var rep struct {
		Tables    map[string][][]json.RawMessage `json:"tables"`
		Integrity []string                       `json:"integrity"`
	}
	if err := o.Call(M{"op": "recover", "src": src, "dst": dst}, &rep); err != nil {
		return nil, nil, err
	}
	t, err := decodeTables(rep.Tables)
	return t, rep.Integrity, err
}
