package hx

import (
	"math"
	"math/rand"
	"sort"
	"strings"
)

// Grid is the value grid of DESIGN.md 2.3: every storage class, every integer
// serial-width boundary, float bit-pattern classes, text/blob variants.
func Grid() []Value {
	var g []Value
	g = append(g, nil)
	seen := map[int64]bool{}
	addI := func(v int64) {
		if !seen[v] {
			seen[v] = true
			g = append(g, v)
		}
	}
	for _, v := range []int64{0, 1, -1, 2, -2, 9, 10, 11, 100} {
		addI(v)
	}
	for _, b := range []uint{7, 8, 15, 16, 23, 24, 31, 32, 47, 48, 53, 62} {
		p := int64(1) << b
		for _, v := range []int64{p - 1, p, p + 1, -p + 1, -p, -p - 1} {
			addI(v)
		}
	}
	addI(math.MaxInt64)
	addI(math.MaxInt64 - 1)
	addI(math.MinInt64)
	addI(math.MinInt64 + 1)
	addI(9007199254740993) // 2^53+1, not representable as float64
	addI(-9007199254740993)
	addI(9223372036854775296) // largest float64 below 2^63 as an int
	addI(9223372036854775297)

	fb := math.Float64frombits
	floats := []float64{0, math.Copysign(0, -1), 0.5, -0.5, 1, -1, 1.5, 2, 10, 1e-300, -1e-300, 1e300, -1e300,
		math.Inf(1), math.Inf(-1), fb(1), fb(0x8000000000000001), fb(0x000fffffffffffff), math.MaxFloat64, -math.MaxFloat64,
		9007199254740992, 9007199254740994, -9007199254740992, 9223372036854775808, -9223372036854775808,
		9223372036854774784, 9223372036854777856, -9223372036854777856,
		127, 128, 128.5, 32767, 32768, 2147483647, 2147483648, 0.1, 1.0 / 3, 255, 256, 1e10, 123456789.125,
		4503599627370496.5, 9007199254740991}
	for _, f := range floats {
		g = append(g, f)
	}
	texts := []string{"", "a", "A", "ab", "aB", "AB", "Ab", "abc", "ABC", "Abc", "abc ", "abc  ", "ABC ", "abc\t", "abc\n", "abc \t",
		" abc", "abd", "ABD", "b", "B", "ba", "z", "Z", "zz", "a\x00b", "a\x00c", "A\x00B", "a\x00", "\x00", "\x00a", "a ", "A  ", " ", "  ",
		"é", "É", "é", "ß", "ss", "SS", "ä", "Ä", "中文", "\U0001f600", "[", "`", "{", "@", "_",
		"0", "1", "10", "9", "-1", "1.0", "1e3", "K", "k", "K", // Kelvin sign
		"hello world", "Hello World", "HELLO WORLD ", "hello world  ",
		strings.Repeat("x", 40), strings.Repeat("X", 40), strings.Repeat("x", 39) + "y", strings.Repeat("x", 40) + " "}
	for _, t := range texts {
		g = append(g, t)
	}
	blobs := [][]byte{{}, {0}, {0, 0}, []byte("a"), []byte("A"), []byte("abc"), []byte("abc "), []byte("ABC"), {0xff}, {0xff, 0xff}, {0x80},
		[]byte("ab\x00"), []byte("1"), []byte(strings.Repeat("x", 40))}
	for _, b := range blobs {
		g = append(g, b)
	}
	return g
}

// ExtendGrid adds n PRNG-derived values (neighbours and mutations of grid values).
func ExtendGrid(g []Value, rng *rand.Rand, n int) []Value {
	out := append([]Value{}, g...)
	for i := 0; i < n; i++ {
		base := g[rng.Intn(len(g))]
		switch x := base.(type) {
		case nil:
			out = append(out, rng.Int63()-rng.Int63())
		case int64:
			d := int64(rng.Intn(5) - 2)
			if rng.Intn(3) == 0 {
				out = append(out, float64(x))
			} else if (d > 0 && x <= math.MaxInt64-d) || (d < 0 && x >= math.MinInt64-d) || d == 0 {
				out = append(out, x+d)
			} else {
				out = append(out, x)
			}
		case float64:
			switch rng.Intn(4) {
			case 0:
				out = append(out, math.Nextafter(x, math.Inf(1)))
			case 1:
				out = append(out, math.Nextafter(x, math.Inf(-1)))
			case 2:
				if x == math.Trunc(x) && x >= -9.2e18 && x <= 9.2e18 {
					out = append(out, int64(x))
				} else {
					out = append(out, x*2)
				}
			default:
				out = append(out, float64(rng.Int63n(1<<62))*float64(1+rng.Intn(3)))
			}
		case string:
			alphabet := []string{"a", "A", "b", "z", " ", "\t", "\x00", "é", "É", "0", "ß", "Z"}
			s := x
			switch rng.Intn(5) {
			case 0:
				s = s + alphabet[rng.Intn(len(alphabet))]
			case 1:
				s = strings.ToUpper(s)
			case 2:
				s = strings.ToLower(s)
			case 3:
				if len(s) > 0 {
					s = s[:len(s)-1]
					for !validUTF8(s) && len(s) > 0 {
						s = s[:len(s)-1]
					}
				}
			default:
				s = alphabet[rng.Intn(len(alphabet))] + s
			}
			out = append(out, s)
		case []byte:
			b := append([]byte{}, x...)
			if rng.Intn(2) == 0 || len(b) == 0 {
				b = append(b, byte(rng.Intn(256)))
			} else {
				b[rng.Intn(len(b))] ^= byte(1 << uint(rng.Intn(8)))
			}
			out = append(out, b)
		}
	}
	return out
}

func validUTF8(s string) bool {
	for _, r := range s {
		if r == 0xFFFD {
			return false
		}
	}
	return true
}

// SortedKeys returns the sorted keys of a string-keyed map.
func SortedKeys[V any](m map[string]V) []string {
	out := make([]string, 0, len(m))
	for k := range m {
		out = append(out, k)
	}
	sort.Strings(out)
	return out
}
