package hx

import (
	"encoding/binary"
	"fmt"
	"math"
)

// Independent encoder / page builder: writes small single-table database files
// with chosen (also non-minimal) varint encodings. The same file is read by
// SQLite (the oracle) and by sqlittle.

// VarintN encodes v in exactly n bytes (1..9). ok=false if v does not fit.
func VarintN(v uint64, n int) ([]byte, bool) {
	if n < 1 || n > 9 {
		return nil, false
	}
	if n == 9 {
		b := make([]byte, 9)
		b[8] = byte(v)
		x := v >> 8
		for i := 7; i >= 0; i-- {
			b[i] = byte(x&0x7f) | 0x80
			x >>= 7
		}
		if x != 0 {
			return nil, false
		}
		return b, true
	}
	if n < 9 && v>>(7*uint(n)) != 0 {
		return nil, false
	}
	b := make([]byte, n)
	x := v
	for i := n - 1; i >= 0; i-- {
		b[i] = byte(x & 0x7f)
		if i != n-1 {
			b[i] |= 0x80
		}
		x >>= 7
	}
	return b, true
}

// VarintMin encodes v minimally.
func VarintMin(v uint64) []byte {
	for n := 1; n <= 9; n++ {
		if b, ok := VarintN(v, n); ok {
			return b
		}
	}
	return nil
}

// RecordSpec controls how a record is encoded.
type RecordSpec struct {
	Values       []Value
	HdrSizeLen   int     // 0: minimal; else exact varint length
	SerialLens   []int   // per column varint length override (0: minimal)
	ForceSerials []int64 // per column serial type override (0: automatic); for int widths
}

func serialFor(v Value, force int64) (int64, []byte) {
	switch x := v.(type) {
	case nil:
		return 0, nil
	case int64:
		st := force
		if st == 0 {
			switch {
			case x == 0:
				st = 8
			case x == 1:
				st = 9
			case x >= -128 && x <= 127:
				st = 1
			case x >= -32768 && x <= 32767:
				st = 2
			case x >= -8388608 && x <= 8388607:
				st = 3
			case x >= -2147483648 && x <= 2147483647:
				st = 4
			case x >= -140737488355328 && x <= 140737488355327:
				st = 5
			default:
				st = 6
			}
		}
		var n int
		switch st {
		case 8, 9:
			return st, nil
		case 1, 2, 3, 4:
			n = int(st)
		case 5:
			n = 6
		case 6:
			n = 8
		}
		b := make([]byte, n)
		u := uint64(x)
		for i := n - 1; i >= 0; i-- {
			b[i] = byte(u)
			u >>= 8
		}
		return st, b
	case float64:
		b := make([]byte, 8)
		binary.BigEndian.PutUint64(b, math.Float64bits(x))
		return 7, b
	case string:
		return int64(len(x))*2 + 13, []byte(x)
	case []byte:
		return int64(len(x))*2 + 12, x
	}
	return 0, nil
}

// BuildRecord encodes a record.
func BuildRecord(rs RecordSpec) ([]byte, error) {
	var serials [][]byte
	var body []byte
	for i, v := range rs.Values {
		var force int64
		if i < len(rs.ForceSerials) {
			force = rs.ForceSerials[i]
		}
		st, b := serialFor(v, force)
		n := 0
		if i < len(rs.SerialLens) {
			n = rs.SerialLens[i]
		}
		var enc []byte
		if n == 0 {
			enc = VarintMin(uint64(st))
		} else {
			var ok bool
			enc, ok = VarintN(uint64(st), n)
			if !ok {
				return nil, fmt.Errorf("serial type %d does not fit %d bytes", st, n)
			}
		}
		serials = append(serials, enc)
		body = append(body, b...)
	}
	sl := 0
	for _, s := range serials {
		sl += len(s)
	}
	// header size includes its own varint
	var hdr []byte
	if rs.HdrSizeLen == 0 {
		for n := 1; n <= 9; n++ {
			if h, ok := VarintN(uint64(sl+n), n); ok {
				hdr = h
				break
			}
		}
	} else {
		h, ok := VarintN(uint64(sl+rs.HdrSizeLen), rs.HdrSizeLen)
		if !ok {
			return nil, fmt.Errorf("header size does not fit")
		}
		hdr = h
	}
	out := append([]byte{}, hdr...)
	for _, s := range serials {
		out = append(out, s...)
	}
	return append(out, body...), nil
}

// CellSpec is one table-leaf cell.
type CellSpec struct {
	Rowid         int64
	RowidLen      int // 0: minimal
	Payload       []byte
	PayloadLenLen int // 0: minimal
}

// BuildTableFile writes a database with one table "t" whose root is a single
// leaf page (page 2), plus overflow pages as needed. createSQL is the table's
// CREATE statement.
func BuildTableFile(pageSize int, createSQL string, cells []CellSpec) ([]byte, error) {
	type page []byte
	pages := []page{make(page, pageSize), make(page, pageSize)}
	newPage := func() int {
		pages = append(pages, make(page, pageSize))
		return len(pages)
	}
	// leaf page writer
	writeLeaf := func(pg page, hdrOff int, cellBytes [][]byte) error {
		pg[hdrOff] = 0x0d
		binary.BigEndian.PutUint16(pg[hdrOff+3:], uint16(len(cellBytes)))
		end := pageSize
		ptr := hdrOff + 8
		for _, cb := range cellBytes {
			end -= len(cb)
			if end < ptr+2*len(cellBytes) {
				return fmt.Errorf("cells do not fit the page")
			}
			copy(pg[end:], cb)
			binary.BigEndian.PutUint16(pg[ptr:], uint16(end))
			ptr += 2
		}
		binary.BigEndian.PutUint16(pg[hdrOff+5:], uint16(end&0xffff))
		return nil
	}
	mkCell := func(c CellSpec) ([]byte, error) {
		var out []byte
		pl := VarintMin(uint64(len(c.Payload)))
		if c.PayloadLenLen != 0 {
			var ok bool
			pl, ok = VarintN(uint64(len(c.Payload)), c.PayloadLenLen)
			if !ok {
				return nil, fmt.Errorf("payload length does not fit")
			}
		}
		out = append(out, pl...)
		ri := VarintMin(uint64(c.Rowid))
		if c.RowidLen != 0 {
			var ok bool
			ri, ok = VarintN(uint64(c.Rowid), c.RowidLen)
			if !ok {
				return nil, fmt.Errorf("rowid does not fit")
			}
		}
		out = append(out, ri...)
		local := LocalPayload(int64(len(c.Payload)), pageSize, false)
		out = append(out, c.Payload[:local]...)
		if local < len(c.Payload) {
			rest := c.Payload[local:]
			first := newPage()
			cur := first
			for {
				n := pageSize - 4
				if n > len(rest) {
					n = len(rest)
				}
				copy(pages[cur-1][4:], rest[:n])
				rest = rest[n:]
				if len(rest) == 0 {
					break
				}
				nx := newPage()
				binary.BigEndian.PutUint32(pages[cur-1][0:], uint32(nx))
				cur = nx
			}
			out = append(out, byte(first>>24), byte(first>>16), byte(first>>8), byte(first))
		}
		return out, nil
	}
	var cellBytes [][]byte
	for _, c := range cells {
		cb, err := mkCell(c)
		if err != nil {
			return nil, err
		}
		cellBytes = append(cellBytes, cb)
	}
	if err := writeLeaf(pages[1], 0, cellBytes); err != nil {
		return nil, err
	}
	// sqlite_master
	mrec, err := BuildRecord(RecordSpec{Values: []Value{"table", "t", "t", int64(2), createSQL}, ForceSerials: []int64{0, 0, 0, 1, 0}})
	if err != nil {
		return nil, err
	}
	mc, err := mkCell(CellSpec{Rowid: 1, Payload: mrec})
	if err != nil {
		return nil, err
	}
	if err := writeLeaf(pages[0], 100, [][]byte{mc}); err != nil {
		return nil, err
	}
	h := pages[0]
	copy(h, "SQLite format 3\x00")
	if pageSize == 65536 {
		binary.BigEndian.PutUint16(h[16:], 1)
	} else {
		binary.BigEndian.PutUint16(h[16:], uint16(pageSize))
	}
	h[18], h[19], h[20], h[21], h[22], h[23] = 1, 1, 0, 64, 32, 32
	binary.BigEndian.PutUint32(h[24:], 1)                  // change counter
	binary.BigEndian.PutUint32(h[28:], uint32(len(pages))) // size in pages
	binary.BigEndian.PutUint32(h[40:], 1)                  // schema cookie
	binary.BigEndian.PutUint32(h[44:], 4)                  // schema format
	binary.BigEndian.PutUint32(h[56:], 1)                  // utf-8
	binary.BigEndian.PutUint32(h[92:], 1)                  // version-valid-for
	binary.BigEndian.PutUint32(h[96:], 3040001)
	var out []byte
	for _, p := range pages {
		out = append(out, p...)
	}
	return out, nil
}
