package hx

import (
	"errors"
	"fmt"
	"io"
	"sync"

	sdb "github.com/alicebob/sqlittle/db"
)

// ErrInjected is the I/O error injected by fault pagers.
var ErrInjected = errors.New("verif: injected I/O error")

// ErrBudget is returned once a read budget is exhausted.
var ErrBudget = errors.New("verif: page read budget exhausted")

// MemPager serves a database image from memory with the file pager's copy
// semantics (a fresh buffer per read, io.EOF on a short read, error beyond the
// end).  It counts reads, can fail the k-th read, and enforces a read budget.
type MemPager struct {
	Data []byte

	mu         sync.Mutex
	Reads      int64
	BytesRead  int64
	FaultAt    int64 // 1-based index of the read to fail (0: none)
	FaultShort bool  // fault is a short read (io.EOF, zero filled tail) instead of an I/O error
	FaultFired bool
	Budget     int64 // 0: unlimited
	Exceeded   bool
	LockErr    error // returned by RLock when set
	Locked     bool
	LockCalls  int
	UnlockCall int
	OutsideLk  int64 // page reads while not locked (after the first lock call)
	Reserved   bool
	PagesSeen  map[int]int
	TrackPages bool
}

func NewMemPager(data []byte) *MemPager { return &MemPager{Data: data} }

func (m *MemPager) Page(n int, pagesize int) ([]byte, error) {
	m.mu.Lock()
	defer m.mu.Unlock()
	m.Reads++
	if m.TrackPages {
		if m.PagesSeen == nil {
			m.PagesSeen = map[int]int{}
		}
		m.PagesSeen[n]++
	}
	if m.LockCalls > 0 && !m.Locked {
		m.OutsideLk++
	}
	if m.Budget > 0 && m.Reads > m.Budget {
		m.Exceeded = true
		return nil, ErrBudget
	}
	buf := make([]byte, pagesize)
	if m.FaultAt > 0 && m.Reads == m.FaultAt {
		m.FaultFired = true
		if m.FaultShort {
			// short read: first half delivered, rest zero
			off := int64(n-1) * int64(pagesize)
			if off >= 0 && off < int64(len(m.Data)) {
				end := off + int64(pagesize)/2
				if end > int64(len(m.Data)) {
					end = int64(len(m.Data))
				}
				copy(buf, m.Data[off:end])
			}
			return buf, io.EOF
		}
		return buf, ErrInjected
	}
	off := int64(n-1) * int64(pagesize)
	if off < 0 || int64(len(m.Data)) < off {
		return buf, fmt.Errorf("mmap: invalid ReadAt offset %d", off)
	}
	c := copy(buf, m.Data[off:])
	m.BytesRead += int64(c)
	if c < len(buf) {
		return buf, io.EOF
	}
	return buf, nil
}

func (m *MemPager) Close() error { return nil }

func (m *MemPager) RLock() error {
	m.mu.Lock()
	defer m.mu.Unlock()
	m.LockCalls++
	if m.LockErr != nil {
		return m.LockErr
	}
	if m.Locked {
		return errors.New("trying to lock a locked lock")
	}
	m.Locked = true
	return nil
}

func (m *MemPager) RUnlock() error {
	m.mu.Lock()
	defer m.mu.Unlock()
	m.UnlockCall++
	if !m.Locked {
		return errors.New("trying to unlock an unlocked lock")
	}
	m.Locked = false
	return nil
}

func (m *MemPager) CheckReservedLock() (bool, error) { return m.Reserved, nil }

// ResetCounters prepares the pager for the next measured operation.
func (m *MemPager) ResetCounters() {
	m.mu.Lock()
	m.Reads, m.BytesRead, m.FaultAt, m.FaultFired, m.Exceeded = 0, 0, 0, false, false
	m.OutsideLk = 0
	m.PagesSeen = nil
	m.mu.Unlock()
}

// OpenMem opens a low-level database over an in-memory image.
func OpenMem(data []byte) (*sdb.Database, *MemPager, error) {
	p := NewMemPager(data)
	d, err := sdb.VerifOpenPager(p, "")
	return d, p, err
}

// TraceEvent is one event seen by the tracing pager.
type TraceEvent struct {
	Kind string // lock, lockfail, unlock, page, reserved, close
	Page int
}

// TracePager wraps another pager (usually the real file pager) and records
// lock/page/unlock events.  Hook, when set, is called after each event while
// the reader is stopped at it (so an observer can look at the lock state).
type TracePager struct {
	Inner sdb.VerifPager
	mu    sync.Mutex
	Ev    []TraceEvent
	Hook  func(idx int, ev TraceEvent)
	// PreLock runs right before the lock request is passed on (the moment before a read transaction begins)
	PreLock func()
}

func (t *TracePager) add(ev TraceEvent) {
	t.mu.Lock()
	t.Ev = append(t.Ev, ev)
	idx := len(t.Ev) - 1
	h := t.Hook
	t.mu.Unlock()
	if h != nil {
		h(idx, ev)
	}
}

func (t *TracePager) Page(n int, pagesize int) ([]byte, error) {
	b, err := t.Inner.Page(n, pagesize)
	t.add(TraceEvent{Kind: "page", Page: n})
	return b, err
}
func (t *TracePager) Close() error {
	err := t.Inner.Close()
	t.add(TraceEvent{Kind: "close"})
	return err
}
func (t *TracePager) RLock() error {
	if f := t.PreLock; f != nil {
		f()
	}
	err := t.Inner.RLock()
	if err != nil {
		t.add(TraceEvent{Kind: "lockfail"})
	} else {
		t.add(TraceEvent{Kind: "lock"})
	}
	return err
}
func (t *TracePager) RUnlock() error {
	err := t.Inner.RUnlock()
	t.add(TraceEvent{Kind: "unlock"})
	return err
}
func (t *TracePager) CheckReservedLock() (bool, error) {
	b, err := t.Inner.CheckReservedLock()
	t.add(TraceEvent{Kind: "reserved"})
	return b, err
}

// Events returns a copy of the trace and clears it.
func (t *TracePager) Take() []TraceEvent {
	t.mu.Lock()
	defer t.mu.Unlock()
	ev := t.Ev
	t.Ev = nil
	return ev
}

// CheckTrace verifies the per-operation shape: lock (page|reserved)* unlock,
// no page outside. Returns "" when fine.
func CheckTrace(ev []TraceEvent) string {
	locked := false
	locks, unlocks := 0, 0
	for i, e := range ev {
		switch e.Kind {
		case "lock":
			if locked {
				return fmt.Sprintf("event %d: lock while locked", i)
			}
			locked = true
			locks++
		case "unlock":
			if !locked {
				return fmt.Sprintf("event %d: unlock while not locked", i)
			}
			locked = false
			unlocks++
		case "page":
			if !locked {
				return fmt.Sprintf("event %d: page %d read outside the lock interval", i, e.Page)
			}
		}
	}
	if locked {
		return "operation returned with the lock still held (no unlock event)"
	}
	if locks != unlocks {
		return fmt.Sprintf("locks=%d unlocks=%d", locks, unlocks)
	}
	return ""
}

// SplicePager serves the pages in FromA from image A and all others from image
// B (same page size): a database whose index still has entries for rows that
// the table no longer has, and similar structural damage no checksum reveals.
type SplicePager struct {
	A, B  []byte
	FromA map[int]bool
	MemPager
}

func (s *SplicePager) Page(n int, pagesize int) ([]byte, error) {
	src := s.B
	if s.FromA[n] {
		src = s.A
	}
	s.Reads++
	buf := make([]byte, pagesize)
	off := int64(n-1) * int64(pagesize)
	if off < 0 || int64(len(src)) < off {
		return buf, fmt.Errorf("mmap: invalid ReadAt offset %d", off)
	}
	c := copy(buf, src[off:])
	if c < len(buf) {
		return buf, io.EOF
	}
	return buf, nil
}
