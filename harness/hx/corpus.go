package hx

import (
	"fmt"
	"path/filepath"
	"strings"
)

// ColInfo / IndexInfo / TableInfo mirror SQLite's own view of the schema
// (pragma table_xinfo, table_list, index_list, index_xinfo).
type ColInfo struct {
	Cid     int     `json:"cid"`
	Name    string  `json:"name"`
	Type    string  `json:"type"`
	NotNull int     `json:"notnull"`
	Dflt    *string `json:"dflt"`
	PK      int     `json:"pk"`
	Hidden  int     `json:"hidden"`
}

type XCol struct {
	Seqno int     `json:"seqno"`
	Cid   int     `json:"cid"`
	Name  *string `json:"name"`
	Desc  int     `json:"desc"`
	Coll  *string `json:"coll"`
	Key   int     `json:"key"`
}

type IndexInfo struct {
	Name    string  `json:"name"`
	Unique  int     `json:"unique"`
	Origin  string  `json:"origin"`
	Partial int     `json:"partial"`
	Cols    []XCol  `json:"cols"`
	SQL     *string `json:"sql"`
	Root    int     `json:"root"`
}

type TableInfo struct {
	Name       string      `json:"name"`
	SQL        *string     `json:"sql"`
	Root       int         `json:"root"`
	WR         int         `json:"wr"`
	Cols       []ColInfo   `json:"cols"`
	Indexes    []IndexInfo `json:"indexes"`
	RowidAlias *string     `json:"rowid_alias"`
	Count      int         `json:"count"`
}

func (t *TableInfo) ColNames() []string {
	var out []string
	for _, c := range t.Cols {
		if c.Hidden == 0 {
			out = append(out, c.Name)
		}
	}
	return out
}

// RowidName is a keyword that still addresses the rowid of this table (a real
// column named rowid / oid / _rowid_ shadows the keyword), "" if none is left.
func (t *TableInfo) RowidName() string {
	for _, cand := range []string{"rowid", "_rowid_", "oid"} {
		free := true
		for _, c := range t.Cols {
			if SameName(c.Name, cand) {
				free = false
			}
		}
		if free {
			return cand
		}
	}
	return ""
}

func (t *TableInfo) PKIndex() *IndexInfo {
	for i := range t.Indexes {
		if t.Indexes[i].Origin == "pk" {
			return &t.Indexes[i]
		}
	}
	return nil
}

// KeyCols are the index's declared key columns (key=1).
func (ix *IndexInfo) KeyCols() []XCol {
	var out []XCol
	for _, c := range ix.Cols {
		if c.Key == 1 {
			out = append(out, c)
		}
	}
	return out
}

type GenIndexMeta struct {
	Where *string  `json:"where"`
	Exprs []string `json:"exprs"`
}

type DBMeta struct {
	Tables  []TableInfo            `json:"tables"`
	Pragmas map[string]interface{} `json:"pragmas"`
}

type StatInfo struct {
	Depth    int `json:"depth"`
	Pages    int `json:"pages"`
	Overflow int `json:"overflow"`
	Interior int `json:"interior"`
	Leaf     int `json:"leaf"`
}

// DB is one generated corpus database.
type DB struct {
	Path    string
	Profile M
	Seed    int64
	Meta    DBMeta
	Gen     map[string]GenIndexMeta
	Stat    map[string]StatInfo
}

func (d *DB) Table(name string) *TableInfo {
	for i := range d.Meta.Tables {
		if d.Meta.Tables[i].Name == name {
			return &d.Meta.Tables[i]
		}
	}
	return nil
}

func (d *DB) PageSize() int {
	if v, ok := d.Meta.Pragmas["page_size"].(float64); ok {
		return int(v)
	}
	return 0
}

// LoadMeta fetches SQLite's view of the schema of any database file.
func LoadMeta(o *Oracle, path string) (DBMeta, error) {
	var rep DBMeta
	err := o.Call(M{"op": "meta", "path": path}, &rep)
	return rep, err
}

func LoadStat(o *Oracle, path string) (map[string]StatInfo, error) {
	var rep struct {
		Stat map[string]StatInfo `json:"stat"`
	}
	err := o.Call(M{"op": "dbstat", "path": path}, &rep)
	return rep.Stat, err
}

// BuildDB generates a database with the oracle's generator.
func BuildDB(o *Oracle, dir string, name string, profile M, seed int64) (*DB, error) {
	path := filepath.Join(dir, name+".sqlite")
	var rep struct {
		Gen struct {
			Indexes map[string]GenIndexMeta `json:"indexes"`
		} `json:"gen"`
	}
	if err := o.Call(M{"op": "gen", "path": path, "profile": profile, "seed": seed}, &rep); err != nil {
		return nil, fmt.Errorf("gen %s: %w", name, err)
	}
	meta, err := LoadMeta(o, path)
	if err != nil {
		return nil, err
	}
	stat, err := LoadStat(o, path)
	if err != nil {
		return nil, err
	}
	return &DB{Path: path, Profile: profile, Seed: seed, Meta: meta, Gen: rep.Gen.Indexes, Stat: stat}, nil
}

// AllPageSizes are the legal page sizes.
var AllPageSizes = []int{512, 1024, 2048, 4096, 8192, 16384, 32768, 65536}

// Profiles returns the corpus database profiles for a tier.  The list is a
// function of tier and seed only.
func Profiles(tier string, seed int64) []M { return ProfilesReps(tier, seed, 3) }

// ProfilesReps is Profiles with a chosen number of repetitions of the thorough page-size x variant grid
// (every database gets its own PRNG stream, so repetitions differ in content).
func ProfilesReps(tier string, seed int64, reps int) []M {
	var out []M
	add := func(m M) { out = append(out, m) }
	if tier != "thorough" {
		// 8 page sizes x small/large, plus a few configuration variants
		for i, ps := range AllPageSizes {
			rows := 300
			if ps <= 1024 {
				rows = 1500
			}
			add(M{"page_size": ps, "rows": rows, "frag": i%2 == 1})
		}
		add(M{"page_size": 512, "rows": 5000, "features": []string{"plain", "alias", "wr"}}) // depth 3
		add(M{"page_size": 1024, "rows": 12000, "features": []string{"plain", "alias"}})     // interior pages with a large fan-out
		add(M{"page_size": 1024, "rows": 800, "auto_vacuum": 1, "frag": true})
		add(M{"page_size": 4096, "rows": 600, "auto_vacuum": 2, "frag": true, "incr_vacuum": true})
		add(M{"page_size": 1024, "rows": 900, "frag": true, "vacuum": true})
		add(M{"page_size": 512, "rows": 40, "features": []string{"plain", "alias", "pk", "cpk", "wr", "wr2", "alter", "misc", "wide"}})
		return out
	}
	for rep := 0; rep < reps; rep++ {
		for i, ps := range AllPageSizes {
			for v := 0; v < 6; v++ {
				if rep > 0 && (v == 2 || v == 4) && ps >= 8192 {
					continue // the largest variants once only
				}
				rows := []int{5, 60, 400, 1500, 3000, 800}[v]
				if ps >= 16384 {
					rows *= 3
				}
				m := M{"page_size": ps, "rows": rows, "frag": (i+v)%2 == 1, "auto_vacuum": (v + i) % 3}
				if v == 3 {
					m["vacuum"] = true
				}
				if v == 5 {
					m["features"] = []string{"plain", "alias", "pk", "cpk", "wr", "wr2", "big", "alter", "misc", "wide"}
					m["big_density"] = 0.9
				}
				add(m)
			}
		}
	}
	// depth 4 on small pages
	add(M{"page_size": 512, "rows": 90000, "features": []string{"plain"}})
	add(M{"page_size": 512, "rows": 120000, "features": []string{"alias", "wr"}})
	add(M{"page_size": 1024, "rows": 60000, "features": []string{"plain", "alias", "wr"}, "frag": true})
	// very long overflow chains
	add(M{"page_size": 512, "rows": 20, "features": []string{"big"}, "big_extra": []int{3_000_000, 70_000}})
	add(M{"page_size": 65536, "rows": 20, "features": []string{"big"}, "big_extra": []int{3_000_000}})
	return out
}

// ProfileName is a short human-readable name for a profile.
func ProfileName(i int, m M) string {
	s := fmt.Sprintf("db%02d-ps%v-r%v", i, m["page_size"], m["rows"])
	for _, k := range []string{"frag", "vacuum", "incr_vacuum"} {
		if b, ok := m[k].(bool); ok && b {
			s += "-" + k
		}
	}
	if av, ok := m["auto_vacuum"]; ok && fmt.Sprint(av) != "0" {
		s += fmt.Sprintf("-av%v", av)
	}
	return s
}

// OrderByIndex builds the ORDER BY clause SQLite uses for an index: every
// index_xinfo column (key columns, then the appended rowid / pk columns) with
// its collation and direction.  Expression columns take their text from the
// generator metadata.
func OrderByIndex(ix *IndexInfo, gm GenIndexMeta, rowidName ...string) (string, error) {
	rid := "rowid"
	if len(rowidName) > 0 && rowidName[0] != "" {
		rid = rowidName[0]
	}
	var parts []string
	ei := 0
	for _, c := range ix.Cols {
		var ex string
		switch {
		case c.Cid >= 0 && c.Name != nil:
			ex = QuoteIdent(*c.Name)
		case c.Cid == -1:
			ex = rid
		case c.Cid == -2:
			if ei >= len(gm.Exprs) {
				return "", fmt.Errorf("index %s: expression column without generator metadata", ix.Name)
			}
			ex = "(" + gm.Exprs[ei] + ")"
			ei++
		default:
			return "", fmt.Errorf("index %s: odd xinfo column %+v", ix.Name, c)
		}
		coll := "BINARY"
		if c.Coll != nil {
			coll = *c.Coll
		}
		dir := "ASC"
		if c.Desc != 0 {
			dir = "DESC"
		}
		parts = append(parts, fmt.Sprintf("%s COLLATE %s %s", ex, coll, dir))
	}
	return strings.Join(parts, ", "), nil
}

// OrderByTable is the scan order of a table: rowid, or the primary key.
func OrderByTable(t *TableInfo) (string, error) {
	if t.WR == 0 {
		if n := t.RowidName(); n != "" {
			return n, nil
		}
		return "", fmt.Errorf("table %s: every rowid keyword is shadowed by a column", t.Name)
	}
	pk := t.PKIndex()
	if pk == nil {
		return "", fmt.Errorf("table %s: WITHOUT ROWID but no pk index", t.Name)
	}
	var parts []string
	for _, c := range pk.KeyCols() {
		dir := "ASC"
		if c.Desc != 0 {
			dir = "DESC"
		}
		parts = append(parts, fmt.Sprintf("%s COLLATE %s %s", QuoteIdent(*c.Name), *c.Coll, dir))
	}
	return strings.Join(parts, ", "), nil
}
