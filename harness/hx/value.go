// Package hx is the harness core: typed values, the oracle bridge, verdict and
// evidence bookkeeping, corpus construction, pagers over the verif hook, and an
// independent page walker used for input selection.
package hx

import (
	"bytes"
	"encoding/base64"
	"encoding/json"
	"fmt"
	"math"
	"strconv"
	"strings"
)

// Value is nil | int64 | float64 | string | []byte, the same set sqlittle uses.
type Value = interface{}

// Row is one result row.
type Row []Value

type wireVal struct {
	I *string `json:"i,omitempty"`
	F *string `json:"f,omitempty"`
	T *string `json:"t,omitempty"`
	B *string `json:"b,omitempty"`
}

// EncodeValue turns a Value into its wire form.
func EncodeValue(v Value) interface{} {
	switch x := v.(type) {
	case nil:
		return nil
	case int64:
		return map[string]string{"i": strconv.FormatInt(x, 10)}
	case int:
		return map[string]string{"i": strconv.Itoa(x)}
	case float64:
		return map[string]string{"f": fmt.Sprintf("%016x", math.Float64bits(x))}
	case string:
		return map[string]string{"t": base64.StdEncoding.EncodeToString([]byte(x))}
	case []byte:
		return map[string]string{"b": base64.StdEncoding.EncodeToString(x)}
	default:
		panic(fmt.Sprintf("EncodeValue: unsupported %T", v))
	}
}

func EncodeRow(r []Value) []interface{} {
	out := make([]interface{}, len(r))
	for i, v := range r {
		out[i] = EncodeValue(v)
	}
	return out
}

// DecodeValue parses the wire form.
func DecodeValue(raw json.RawMessage) (Value, error) {
	if len(raw) == 0 || string(raw) == "null" {
		return nil, nil
	}
	var w wireVal
	if err := json.Unmarshal(raw, &w); err != nil {
		return nil, err
	}
	switch {
	case w.I != nil:
		n, err := strconv.ParseInt(*w.I, 10, 64)
		return n, err
	case w.F != nil:
		u, err := strconv.ParseUint(*w.F, 16, 64)
		return math.Float64frombits(u), err
	case w.T != nil:
		b, err := base64.StdEncoding.DecodeString(*w.T)
		return string(b), err
	case w.B != nil:
		b, err := base64.StdEncoding.DecodeString(*w.B)
		if b == nil {
			b = []byte{}
		}
		return b, err
	}
	return nil, fmt.Errorf("bad wire value %s", raw)
}

func DecodeRows(raw [][]json.RawMessage) ([]Row, error) {
	out := make([]Row, len(raw))
	for i, r := range raw {
		row := make(Row, len(r))
		for j, c := range r {
			v, err := DecodeValue(c)
			if err != nil {
				return nil, err
			}
			row[j] = v
		}
		out[i] = row
	}
	return out, nil
}

// ValueEqualStrict: same storage class and identical content (floats by bits).
func ValueEqualStrict(a, b Value) bool {
	switch x := a.(type) {
	case nil:
		return b == nil
	case int64:
		y, ok := b.(int64)
		return ok && x == y
	case float64:
		y, ok := b.(float64)
		return ok && math.Float64bits(x) == math.Float64bits(y)
	case string:
		y, ok := b.(string)
		return ok && x == y
	case []byte:
		y, ok := b.([]byte)
		return ok && bytes.Equal(x, y)
	}
	return false
}

// ValueEqualDoc: want is what SQLite returned, got is what sqlittle returned.
// The only accepted difference is the documented one: an integral REAL may
// surface as an integer.
func ValueEqualDoc(want, got Value) bool {
	if ValueEqualStrict(want, got) {
		return true
	}
	if f, ok := want.(float64); ok {
		if n, ok := got.(int64); ok {
			if f == math.Trunc(f) && f >= -9223372036854775808.0 && f < 9223372036854775808.0 {
				return int64(f) == n
			}
		}
	}
	return false
}

func RowEqualDoc(want, got Row) bool {
	if len(want) != len(got) {
		return false
	}
	for i := range want {
		if !ValueEqualDoc(want[i], got[i]) {
			return false
		}
	}
	return true
}

func RowEqualStrict(a, b Row) bool {
	if len(a) != len(b) {
		return false
	}
	for i := range a {
		if !ValueEqualStrict(a[i], b[i]) {
			return false
		}
	}
	return true
}

// ValueString is a compact, unambiguous rendering for reports and samples.
func ValueString(v Value) string {
	switch x := v.(type) {
	case nil:
		return "NULL"
	case int64:
		return "i:" + strconv.FormatInt(x, 10)
	case float64:
		return fmt.Sprintf("f:%v(%016x)", x, math.Float64bits(x))
	case string:
		if len(x) > 48 {
			return fmt.Sprintf("t[%d]:%q…", len(x), x[:32])
		}
		return fmt.Sprintf("t:%q", x)
	case []byte:
		if len(x) > 32 {
			return fmt.Sprintf("b[%d]:%x…", len(x), x[:24])
		}
		return fmt.Sprintf("b:%x", x)
	}
	return fmt.Sprintf("?%T:%v", v, v)
}

func RowString(r []Value) string {
	parts := make([]string, len(r))
	for i, v := range r {
		parts[i] = ValueString(v)
	}
	return "[" + strings.Join(parts, ", ") + "]"
}

// CloneValue deep-copies byte slices.
func CloneValue(v Value) Value {
	if b, ok := v.([]byte); ok {
		c := make([]byte, len(b))
		copy(c, b)
		return c
	}
	return v
}

func CloneRow(r []Value) Row {
	out := make(Row, len(r))
	for i, v := range r {
		out[i] = CloneValue(v)
	}
	return out
}

// Class is the storage class name of a value.
func Class(v Value) string {
	switch v.(type) {
	case nil:
		return "null"
	case int64:
		return "int"
	case float64:
		return "real"
	case string:
		return "text"
	case []byte:
		return "blob"
	}
	return "?"
}

// QuoteIdent quotes an SQL identifier.
func QuoteIdent(s string) string {
	return `"` + strings.ReplaceAll(s, `"`, `""`) + `"`
}

// ValueKey is an exact identity string for a value (class + full content).
func ValueKey(v Value) string {
	switch x := v.(type) {
	case nil:
		return "N"
	case int64:
		return "i" + strconv.FormatInt(x, 10)
	case float64:
		return "f" + strconv.FormatUint(math.Float64bits(x), 16)
	case string:
		return "t" + x
	case []byte:
		return "b" + string(x)
	}
	return fmt.Sprintf("?%v", v)
}

func RowKey(r []Value) string {
	var sb strings.Builder
	for _, v := range r {
		k := ValueKey(v)
		sb.WriteString(strconv.Itoa(len(k)))
		sb.WriteByte(':')
		sb.WriteString(k)
	}
	return sb.String()
}

// FoldName lower-cases an SQL identifier the way SQLite does: ASCII letters only.
func FoldName(s string) string {
	b := []byte(s)
	for i, c := range b {
		if c >= 'A' && c <= 'Z' {
			b[i] = c + 32
		}
	}
	return string(b)
}

// SameName: two spellings of one SQL identifier (ASCII case-insensitive, as in SQLite).
func SameName(a, b string) bool { return FoldName(a) == FoldName(b) }
