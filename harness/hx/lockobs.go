package hx

import (
	"bufio"
	"fmt"
	"os"
	"os/exec"
	"path/filepath"
	"strconv"
	"strings"
	"syscall"
	"time"
)

// SQLite's lock bytes.
const (
	PendingByte  = 0x40000000
	ReservedByte = PendingByte + 1
	SharedFirst  = PendingByte + 2
	SharedSize   = 510
)

// ProcLock is one POSIX lock on a file as /proc/locks shows it.
type ProcLock struct {
	Pid   int
	Write bool
	Start int64
	End   int64 // inclusive; -1 = EOF
}

// FileLocks lists the POSIX locks currently held on path, from /proc/locks
// (no descriptor is opened on the file).
func FileLocks(path string) ([]ProcLock, error) {
	var st syscall.Stat_t
	if err := syscall.Stat(path, &st); err != nil {
		return nil, err
	}
	maj := (st.Dev >> 8) & 0xfff
	min := (st.Dev & 0xff) | ((st.Dev >> 12) & 0xfff00)
	want := fmt.Sprintf("%02x:%02x:%d", maj, min, st.Ino)
	f, err := os.Open("/proc/locks")
	if err != nil {
		return nil, err
	}
	defer f.Close()
	var out []ProcLock
	sc := bufio.NewScanner(f)
	for sc.Scan() {
		fs := strings.Fields(sc.Text())
		// 1: POSIX  ADVISORY  READ 1234 fd:00:5678 0 EOF   (blocked entries start with "1: ->")
		if len(fs) < 8 || fs[1] == "->" {
			continue
		}
		if fs[1] != "POSIX" && fs[1] != "OFDLCK" {
			continue
		}
		if fs[5] != want {
			continue
		}
		pid, _ := strconv.Atoi(fs[4])
		start, _ := strconv.ParseInt(fs[6], 10, 64)
		end := int64(-1)
		if fs[7] != "EOF" {
			end, _ = strconv.ParseInt(fs[7], 10, 64)
		}
		out = append(out, ProcLock{Pid: pid, Write: fs[3] == "WRITE", Start: start, End: end})
	}
	return out, sc.Err()
}

func covers(l ProcLock, b int64) bool {
	return l.Start <= b && (l.End == -1 || l.End >= b)
}

// SQLiteLockState is the SQLite-level lock state of one process on a file.
type SQLiteLockState struct {
	Shared    bool // READ or WRITE lock inside the shared range
	Reserved  bool // WRITE on the reserved byte
	Pending   bool // any lock on the pending byte
	PendingWr bool // WRITE on the pending byte
	Exclusive bool // WRITE over the shared range
}

func (s SQLiteLockState) String() string {
	switch {
	case s.Exclusive:
		return "EXCLUSIVE"
	case s.PendingWr:
		return "PENDING"
	case s.Reserved:
		return "RESERVED"
	case s.Shared:
		return "SHARED"
	case s.Pending:
		return "PENDING-READ"
	}
	return "UNLOCKED"
}

// BlocksReaders: per SQLite's protocol a reader must not enter in these states.
func (s SQLiteLockState) BlocksReaders() bool { return s.PendingWr || s.Exclusive }

// StateOf derives the lock state of pid (0: any process) from /proc/locks entries.
func StateOf(locks []ProcLock, pid int) SQLiteLockState {
	var s SQLiteLockState
	for _, l := range locks {
		if pid != 0 && l.Pid != pid {
			continue
		}
		inShared := l.Start <= SharedFirst+SharedSize-1 && (l.End == -1 || l.End >= SharedFirst)
		if inShared {
			s.Shared = true
			if l.Write {
				s.Exclusive = true
			}
		}
		if covers(l, ReservedByte) && l.Write {
			s.Reserved = true
		}
		if covers(l, PendingByte) {
			s.Pending = true
			if l.Write {
				s.PendingWr = true
			}
		}
	}
	return s
}

// Stepper drives a real SQLite writer (py/writer.py) under the LD_PRELOAD shim
// in step mode: the writer stops before every file / lock operation on the
// database and its journal until released.
type Stepper struct {
	cmd     *exec.Cmd
	Pid     int
	notify  *os.File
	release *os.File
	rd      *bufio.Reader
	dir     string
	done    chan error
	Stdout  *strings.Builder
	Stderr  *strings.Builder
	exited  bool
}

// StepEvent is the operation the writer is about to perform.
type StepEvent struct {
	K    int
	Kind string // write, truncate, sync, unlink, lockRD, lockWR, lockUN
	File string // db, journal
	A, B int64
}

func (e StepEvent) String() string {
	return fmt.Sprintf("#%d %s %s %d %d", e.K, e.Kind, e.File, e.A, e.B)
}

// StartStepper launches writer.py on db. fifoDir must be a scratch directory.
func StartStepper(fifoDir, db, journalMode, scenario, uriParams string, mode string, at int, logPath string) (*Stepper, error) {
	n := filepath.Join(fifoDir, fmt.Sprintf("notify.%d", time.Now().UnixNano()))
	r := filepath.Join(fifoDir, fmt.Sprintf("release.%d", time.Now().UnixNano()))
	if mode == "step" {
		if err := syscall.Mkfifo(n, 0o600); err != nil {
			return nil, err
		}
		if err := syscall.Mkfifo(r, 0o600); err != nil {
			return nil, err
		}
	}
	args := []string{"-u", filepath.Join(VerifDir(), "py", "writer.py"), db, journalMode, scenario}
	if uriParams != "" {
		args = append(args, uriParams)
	}
	cmd := exec.Command(PythonExe(), args...)
	cmd.Env = append(os.Environ(),
		"LD_PRELOAD="+filepath.Join(VerifDir(), "bin", "crashshim.so"),
		"CRASH_PATH="+db, "CRASH_MODE="+mode, "CRASH_AT="+strconv.Itoa(at),
		"PYTHONDONTWRITEBYTECODE=1")
	if mode == "step" {
		cmd.Env = append(cmd.Env, "CRASH_NOTIFY="+n, "CRASH_RELEASE="+r)
	}
	if mode == "kill" || mode == "torn" || mode == "count" {
		cmd.Env = append(cmd.Env, "CRASH_LOCKS=0")
	}
	if logPath != "" {
		cmd.Env = append(cmd.Env, "CRASH_LOG="+logPath)
	}
	so, se := &strings.Builder{}, &strings.Builder{}
	cmd.Stdout, cmd.Stderr = so, se
	if err := cmd.Start(); err != nil {
		return nil, err
	}
	s := &Stepper{cmd: cmd, Pid: cmd.Process.Pid, dir: fifoDir, done: make(chan error, 1), Stdout: so, Stderr: se}
	go func() { s.done <- cmd.Wait() }()
	if mode == "step" {
		// the shim opens notify for writing (blocks until we open for reading) on its first counted op
		type res struct {
			f   *os.File
			err error
		}
		ch := make(chan res, 1)
		go func() {
			f, err := os.OpenFile(n, os.O_RDONLY, 0)
			ch <- res{f, err}
		}()
		select {
		case rr := <-ch:
			if rr.err != nil {
				return nil, rr.err
			}
			s.notify = rr.f
		case err := <-s.done:
			s.exited = true
			// unblock the opener
			if f, e := os.OpenFile(n, os.O_WRONLY|syscall.O_NONBLOCK, 0); e == nil {
				f.Close()
			}
			return nil, fmt.Errorf("writer exited before its first operation: %v: %s", err, se.String())
		case <-time.After(30 * time.Second):
			cmd.Process.Kill()
			return nil, fmt.Errorf("writer did not reach its first operation")
		}
		f, err := os.OpenFile(r, os.O_WRONLY, 0)
		if err != nil {
			return nil, err
		}
		s.release = f
		s.rd = bufio.NewReader(s.notify)
	}
	return s, nil
}

// Next waits for the writer to stop before its next operation. ok=false when
// the writer has finished (or died).
func (s *Stepper) Next() (StepEvent, bool) {
	if s.exited {
		return StepEvent{}, false
	}
	type res struct {
		line string
		err  error
	}
	ch := make(chan res, 1)
	go func() {
		line, err := s.rd.ReadString('\n')
		ch <- res{line, err}
	}()
	select {
	case r := <-ch:
		if r.err != nil {
			s.waitExit()
			return StepEvent{}, false
		}
		fs := strings.Fields(r.line)
		var e StepEvent
		if len(fs) >= 5 {
			e.K, _ = strconv.Atoi(fs[0])
			e.Kind, e.File = fs[1], fs[2]
			e.A, _ = strconv.ParseInt(fs[3], 10, 64)
			e.B, _ = strconv.ParseInt(fs[4], 10, 64)
		}
		return e, true
	case <-time.After(60 * time.Second):
		s.Kill()
		return StepEvent{}, false
	}
}

func (s *Stepper) waitExit() {
	if s.exited {
		return
	}
	select {
	case <-s.done:
	case <-time.After(20 * time.Second):
		s.cmd.Process.Kill()
		<-s.done
	}
	s.exited = true
}

// Release lets the writer perform the operation it is stopped at.
func (s *Stepper) Release() { s.release.Write([]byte{'R'}) }

// Go lets the writer run to completion without further stops.
func (s *Stepper) Go() {
	s.release.Write([]byte{'G'})
	s.waitExit()
}

// KillAtStop makes the stopped writer exit immediately (crash before the operation).
func (s *Stepper) KillAtStop() {
	s.release.Write([]byte{'K'})
	s.waitExit()
}

// Kill terminates the writer.
func (s *Stepper) Kill() {
	if !s.exited {
		s.cmd.Process.Kill()
		s.waitExit()
	}
}

// Wait waits for a non-stepping writer to exit.
func (s *Stepper) Wait() { s.waitExit() }

// Finished reports whether the writer printed DONE (its commit returned).
func (s *Stepper) Finished() bool { return strings.Contains(s.Stdout.String(), "DONE") }

func (s *Stepper) Close() {
	s.Kill()
	if s.notify != nil {
		s.notify.Close()
	}
	if s.release != nil {
		s.release.Close()
	}
}

// LockHolder is a helper process holding raw POSIX locks on SQLite's lock bytes.
type LockHolder struct {
	cmd *exec.Cmd
	in  interface{ Close() error }
	Pid int
}

// StartLockHolder holds the locks in spec ("shared:RD,pending:WR", ...) on path from another process.
func StartLockHolder(path, spec string) (*LockHolder, error) {
	cmd := exec.Command(PythonExe(), "-u", filepath.Join(VerifDir(), "py", "lockholder.py"), path, spec)
	in, err := cmd.StdinPipe()
	if err != nil {
		return nil, err
	}
	out, err := cmd.StdoutPipe()
	if err != nil {
		return nil, err
	}
	if err := cmd.Start(); err != nil {
		return nil, err
	}
	rd := bufio.NewReader(out)
	line, err := rd.ReadString('\n')
	if err != nil || !strings.HasPrefix(line, "READY") {
		cmd.Process.Kill()
		cmd.Wait()
		return nil, fmt.Errorf("lock holder did not get its locks (%q, %v)", line, err)
	}
	return &LockHolder{cmd: cmd, in: in, Pid: cmd.Process.Pid}, nil
}

func (l *LockHolder) Release() {
	l.in.Close()
	l.cmd.Wait()
}
