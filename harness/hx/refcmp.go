package hx

import (
	"bytes"
	"math"
	"math/big"
	"strings"
)

// Independent reference comparator for SQLite's value order. It is validated
// against SQLite's own ranks at the start of every run that uses it; a
// mismatch there makes the run inconclusive, never a violation.

func classRank(v Value) int {
	switch v.(type) {
	case nil:
		return 0
	case int64, float64:
		return 1
	case string:
		return 2
	case []byte:
		return 3
	}
	return 4
}

func numCmp(a, b Value) int {
	// exact comparison through big.Float with enough precision for int64 and float64
	toBig := func(v Value) (*big.Float, int) {
		switch x := v.(type) {
		case int64:
			return new(big.Float).SetPrec(128).SetInt64(x), 0
		case float64:
			if math.IsInf(x, 1) {
				return nil, 1
			}
			if math.IsInf(x, -1) {
				return nil, -1
			}
			return new(big.Float).SetPrec(1100).SetFloat64(x), 0
		}
		return nil, 0
	}
	fa, ia := toBig(a)
	fb, ib := toBig(b)
	if ia != 0 || ib != 0 {
		switch {
		case ia < ib:
			return -1
		case ia > ib:
			return 1
		}
		if ia != 0 { // both the same infinity
			return 0
		}
	}
	return fa.Cmp(fb)
}

func collCmp(a, b string, coll string) int {
	switch strings.ToLower(coll) {
	case "rtrim":
		return strings.Compare(strings.TrimRight(a, " "), strings.TrimRight(b, " "))
	case "nocase":
		// SQLite: sqlite3StrNICmp over the common prefix (stops at NUL), then lengths
		n := len(a)
		if len(b) < n {
			n = len(b)
		}
		fold := func(c byte) int {
			if c >= 'A' && c <= 'Z' {
				return int(c) + 32
			}
			return int(c)
		}
		for i := 0; i < n; i++ {
			if a[i] == 0 || fold(a[i]) != fold(b[i]) {
				d := fold(a[i]) - fold(b[i])
				if d != 0 {
					if d < 0 {
						return -1
					}
					return 1
				}
				break
			}
		}
		switch {
		case len(a) < len(b):
			return -1
		case len(a) > len(b):
			return 1
		}
		return 0
	}
	return strings.Compare(a, b)
}

// RefCompare orders two values the way SQLite does under the collation.
func RefCompare(a, b Value, coll string) int {
	ra, rb := classRank(a), classRank(b)
	if ra != rb {
		if ra < rb {
			return -1
		}
		return 1
	}
	switch ra {
	case 0:
		return 0
	case 1:
		return numCmp(a, b)
	case 2:
		return collCmp(a.(string), b.(string), coll)
	case 3:
		return bytes.Compare(a.([]byte), b.([]byte))
	}
	return 0
}

// KeyFlag carries the per-column collation and direction of an index.
type KeyFlag struct {
	Coll string
	Desc bool
}

// RefCompareRecordKey compares an index record with a key in index order:
// <0 record sorts before the key, 0 equal on the key's columns, >0 after.
// A record that runs out of columns before the key does sorts before it.
func RefCompareRecordKey(rec []Value, key []Value, flags []KeyFlag) int {
	for i := range key {
		if i >= len(rec) {
			return -1
		}
		coll := "binary"
		desc := false
		if i < len(flags) {
			coll, desc = flags[i].Coll, flags[i].Desc
		}
		c := RefCompare(rec[i], key[i], coll)
		if desc {
			c = -c
		}
		if c != 0 {
			return c
		}
	}
	return 0
}
