//go:build verif

// Package props holds one monitor per property of /verif/properties.jsonl.
package props

import (
	"fmt"
	"math/rand"
	"runtime/debug"

	"verifharness/hx"
)

type Spec struct {
	Level string
	Fn    func(*hx.Run)
}

// Registry maps property ids to their checks.
var Registry = map[string]Spec{}

func register(id, level string, fn func(*hx.Run)) {
	Registry[id] = Spec{Level: level, Fn: fn}
}

// WorkerMain is the entry point of child worker processes (set by files that need one).
var workerMains = map[string]func(args []string){}

func WorkerMain(args []string) {
	if len(args) == 0 {
		fmt.Println("worker: missing kind")
		return
	}
	if f, ok := workerMains[args[0]]; ok {
		f(args[1:])
		return
	}
	fmt.Println("worker: unknown kind", args[0])
}

var stdAssumptions = []string{
	"SQLite 3.40.1 (python sqlite3 -> libsqlite3.so.0) is the reference",
	"Linux, unix pager only (db/pager_windows.go cannot be built or run here)",
	"checks rebuild the harness from /repo's working tree with -tags verif",
}

func newRng(run *hx.Run, salt int64) *rand.Rand {
	return rand.New(rand.NewSource(run.Seed*1000003 + salt))
}

// safely runs f and converts a panic into (panicked=true, message+stack).
func safely(f func()) (panicked bool, msg string) {
	defer func() {
		if r := recover(); r != nil {
			panicked = true
			msg = fmt.Sprintf("%v\n%s", r, debug.Stack())
		}
	}()
	f()
	return
}

func mustOracle(run *hx.Run) *hx.Oracle {
	o, err := hx.StartOracle()
	if err != nil {
		run.Inconclusive("cannot start the SQLite oracle process: " + err.Error())
		return nil
	}
	return o
}
