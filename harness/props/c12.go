//go:build verif

package props

import (
	"encoding/binary"
	"errors"
	"fmt"
	"os"
	"strings"
	"sync"

	"github.com/alicebob/sqlittle"
	sdb "github.com/alicebob/sqlittle/db"

	"verifharness/hx"
)

func init() { register("C12", "fault_enumeration", C12) }

func c12Profiles(run *hx.Run) []hx.M {
	ps := []hx.M{
		{"page_size": 512, "rows": 120},
		{"page_size": 1024, "rows": 200, "frag": true},
		{"page_size": 4096, "rows": 300},
	}
	if run.Thorough() {
		ps = append(ps,
			hx.M{"page_size": 512, "rows": 1500, "features": []string{"plain", "alias", "wr", "big"}},
			hx.M{"page_size": 512, "rows": 6000, "features": []string{"alias", "wr"}}, // depth 3
			hx.M{"page_size": 2048, "rows": 400, "auto_vacuum": 1, "frag": true},
			hx.M{"page_size": 8192, "rows": 600},
			hx.M{"page_size": 65536, "rows": 500},
			hx.M{"page_size": 1024, "rows": 900, "vacuum": true, "frag": true},
		)
	}
	return ps
}

func C12(run *hx.Run) {
	run.Rule = "for every operation of the catalogue (all high-level selects, low-level scans/searches, schema calls) on every generated database: one fault-free run on a fresh handle records R page reads and the rows; then for EVERY k in 1..R a fresh handle with a one-shot fault at read k, as (a) I/O error and (b) short read (io.EOF, zero-filled tail): the operation must return a non-nil error and its delivered rows must be a prefix of the fault-free rows; plus RLock failing; plus structures found corrupt: spliced (stale) index pages, a sqlite_master row of a wrong storage class, and page pointers with the top bit set (alone, or with the low bits naming another page of the same kind): error or the unharmed result. distinct = (database, operation, k, fault kind); all are non-trivial (the fault fires inside the operation)"
	run.Assumptions = append(stdAssumptions, "faults are injected through the verif pager hook over an in-memory image with the file pager's copy semantics", "the operation catalogue takes its keys from a fault-free scan")
	run.Exhaustive = true
	profiles := c12Profiles(run)
	type job struct {
		data []byte
		o    op
		pi   int
		name string
	}
	var jobs []job
	var jmu sync.Mutex
	forEachProfile(run, profiles, func(w *worker, d *hx.DB, idx int) {
		data, err := os.ReadFile(d.Path)
		if err != nil {
			run.Inconclusive("read db: " + err.Error())
			return
		}
		ops, err := buildOps(data, true, 0)
		if err != nil {
			run.Inconclusive("operation catalogue: " + err.Error())
			return
		}
		jmu.Lock()
		for _, o := range ops {
			jobs = append(jobs, job{data, o, idx, hx.ProfileName(idx, d.Profile)})
		}
		jmu.Unlock()
	})
	maxR := int64(400)
	if run.Thorough() {
		maxR = 5000
	}
	ch := make(chan job, len(jobs))
	for _, j := range jobs {
		ch <- j
	}
	close(ch)
	var wg sync.WaitGroup
	for wi := 0; wi < nWorkers(); wi++ {
		wg.Add(1)
		go func() {
			defer wg.Done()
			for j := range ch {
				c12One(run, j.data, j.o, j.pi, j.name, maxR)
			}
		}()
	}
	wg.Wait()
	c12Splice(run)
	c12MasterRow(run)
	c12HighBit(run)
	if run.Seen("op_kind", "IndexedSelect") == 0 || run.Seen("op_kind", "Select") == 0 {
		run.Inconclusive("operation catalogue lacks Select/IndexedSelect")
	}
}

func c12One(run *hx.Run, data []byte, o op, pi int, dbname string, maxR int64) {
	// fault-free reference
	p0 := hx.NewMemPager(data)
	h0, err := openMem(p0)
	if err != nil {
		run.Inconclusive("open: " + err.Error())
		return
	}
	ref := o.run(h0, 0)
	R := p0.Reads
	if ref.panicMsg != "" {
		run.Violation("C12/"+o.kind+"/fault-free/"+pmKind(ref.panicMsg), fmt.Sprintf("%s on %s without any fault: %s", o.name, dbname, firstLines(ref.panicMsg, 2)), nil)
		return
	}
	if ref.err != nil {
		run.Count("ops_failing_without_fault", 1)
		run.See("fault_free_failure", o.name+": "+fmt.Sprint(ref.err))
		return
	}
	if p0.OutsideLk > 0 {
		run.Violation("C12/read-outside-lock/"+o.kind, fmt.Sprintf("%s read %d pages outside RLock..RUnlock", o.name, p0.OutsideLk), nil)
	}
	run.See("op_kind", o.kind)
	if R > maxR {
		run.Count("ops_capped_reads", 1)
	}
	// lock failure
	{
		p := hx.NewMemPager(data)
		h, err := openMem(p)
		if err == nil {
			p.LockErr = errors.New("verif: lock refused")
			res := o.run(h, 0)
			run.Eval(1)
			if res.err == nil || len(res.rows) > 0 {
				run.Violation("C12/lock-failure/"+o.kind, fmt.Sprintf("%s: RLock failed but the operation returned err=%v with %d rows", o.name, res.err, len(res.rows)), nil)
			}
			run.Count("lock_failure_runs", 1)
			// a warm handle (caches filled by a successful run) that is refused the lock several times in a row:
			// every refused call reports the failure; once the lock is granted again the result is the reference
			p2 := hx.NewMemPager(data)
			if h2, err := openMem(p2); err == nil && ref.err == nil {
				o.run(h2, 0)
				p2.LockErr = errors.New("verif: lock refused")
				for attempt := 1; attempt <= 3; attempt++ {
					r := o.run(h2, 0)
					run.Eval(1)
					if r.err == nil || len(r.rows) > 0 {
						run.Violation("C12/lock-failure-repeated/"+o.kind, fmt.Sprintf("%s: the lock was refused %d times in a row on one handle; call %d returned err=%v with %d rows", o.name, attempt, attempt, r.err, len(r.rows)), nil)
						break
					}
				}
				p2.LockErr = nil
				r := o.run(h2, 0)
				run.Eval(1)
				if r.panicMsg != "" || r.err != nil || !sameRows(r.rows, ref.rows) {
					run.Violation("C12/after-lock-failure/"+o.kind, fmt.Sprintf("%s: after refused locks the next call on the handle returns err=%v, %d rows (reference %d rows) %s", o.name, r.err, len(r.rows), len(ref.rows), firstLines(r.panicMsg, 1)), nil)
				}
				if p2.Locked {
					run.Violation("C12/lock-failure-repeated/lock-held/"+o.kind, o.name+": lock held after the calls returned", nil)
				}
			}
		}
	}
	step := int64(1)
	if R > maxR {
		step = R/maxR + 1
		run.Count("ops_sampled_not_exhaustive", 1)
	}
	for _, short := range []bool{false, true} {
		for k := int64(1); k <= R; k += step {
			p := hx.NewMemPager(data)
			p.FaultAt = k
			p.FaultShort = short
			h, err := openMem(p)
			fk := "ioerror"
			if short {
				fk = "shortread"
			}
			run.Eval(1)
			if err != nil {
				// fault hit the open itself: reported as an error, fine
				run.Count("fault_at_open", 1)
				continue
			}
			res := o.run(h, 0)
			if !p.FaultFired {
				run.Count("fault_not_reached", 1)
				continue
			}
			// the fault was one-shot: the SAME handle must recover - a second run without a fault returns the
			// complete result or an error, never a silently different result (e.g. from a half-filled cache)
			if k%3 == 0 || R < 60 {
				again := o.run(h, 0)
				run.Eval(1)
				if again.panicMsg != "" {
					run.Violation(fmt.Sprintf("C12/%s/%s/second-run-%s", o.kind, map[bool]string{false: "ioerror", true: "shortread"}[short], pmKind(again.panicMsg)), fmt.Sprintf("%s: second run after a fault at read %d: %s", o.name, k, firstLines(again.panicMsg, 2)), nil)
				} else if again.err == nil {
					if len(again.rows) != len(ref.rows) {
						run.Violation(fmt.Sprintf("C12/%s/second-run-silently-wrong", o.kind), fmt.Sprintf("%s on %s: after a one-shot fault at page read %d of %d (reported: %v), running the operation again on the same handle returns err=nil with %d rows; the fault-free result has %d", o.name, dbname, k, R, res.err, len(again.rows), len(ref.rows)), nil)
					} else if pre, at := isPrefix(again.rows, ref.rows); !pre {
						run.Violation(fmt.Sprintf("C12/%s/second-run-silently-wrong", o.kind), fmt.Sprintf("%s: second run after a fault at read %d differs from the fault-free result at row %d", o.name, k, at), nil)
					} else {
						run.See("second_run", "complete")
					}
				} else {
					run.See("second_run", "error: "+clip(again.err.Error(), 40))
				}
			}
			run.DistinctN(1)
			detail := hx.M{"db": dbname, "op": o.name, "k": k, "reads_fault_free": R, "fault": fk, "rows_fault_free": len(ref.rows), "rows_delivered": len(res.rows)}
			key := fmt.Sprintf("C12/%s/%s", o.kind, fk)
			switch {
			case res.panicMsg != "":
				run.Violation(key+"/panic", fmt.Sprintf("%s panicked under fault at read %d/%d: %s", o.name, k, R, res.panicMsg), detail)
			case res.err == nil:
				pre, _ := isPrefix(res.rows, ref.rows)
				what := "all rows"
				if len(res.rows) != len(ref.rows) || !pre {
					what = fmt.Sprintf("%d of %d rows", len(res.rows), len(ref.rows))
				}
				run.Violation(key+"/silent", fmt.Sprintf("%s on %s: fault at page read %d of %d returned err=nil with %s", o.name, dbname, k, R, what), detail)
			default:
				if pre, at := isPrefix(res.rows, ref.rows); !pre {
					run.Violation(key+"/not-a-prefix", fmt.Sprintf("%s: error %v reported, but delivered rows differ from the fault-free result at row %d", o.name, res.err, at), detail)
				} else if len(res.rows) == 0 {
					run.See("outcome", "error+no-rows")
				} else {
					run.See("outcome", "error+prefix")
				}
			}
		}
	}
	run.Count("ops", 1)
	run.Count("fault_free_reads_total", int(R))
	if R > 3 {
		run.Sample(hx.M{"db": dbname, "op": o.name, "reads": R, "rows": len(ref.rows), "faulted_runs": 2 * R})
	}
}

// c12Splice: "any structure is found to be corrupt": an index that still has
// entries for rows the table lost (index pages from before a DELETE, everything
// else from after it). Success must mean a correct result: no duplicated row,
// and only rows the table has.
func c12Splice(run *hx.Run) {
	o := mustOracle(run)
	if o == nil {
		return
	}
	defer o.Close()
	dir, cleanup := hx.ScratchDir("C12splice")
	defer cleanup()
	for ci, ps := range []int{512, 1024, 4096} {
		d, err := hx.BuildDB(o, dir, fmt.Sprintf("sp%d", ci), hx.M{"page_size": ps, "rows": 200, "features": []string{"plain", "alias", "wr", "wr2"}}, run.Seed*23+int64(ci))
		if err != nil {
			run.Inconclusive("splice corpus: " + err.Error())
			return
		}
		A, _ := os.ReadFile(d.Path)
		if err := o.Exec(d.Path, "DELETE FROM t_wr WHERE (c % 3) = 1", "DELETE FROM t_plain WHERE (rowid % 4) = 2", "DELETE FROM t_alias WHERE (id % 3) = 0", "DELETE FROM t_wr2 WHERE n > 4"); err != nil {
			run.Inconclusive("splice delete: " + err.Error())
			return
		}
		B, _ := os.ReadFile(d.Path)
		for _, t := range d.Meta.Tables {
			if t.Name != "t_wr" && t.Name != "t_plain" && t.Name != "t_alias" && t.Name != "t_wr2" {
				continue
			}
			// the table's current rows, by their full content
			cols := t.ColNames()
			want, err := o.Query(d.Path, fmt.Sprintf("SELECT %s FROM %s", selectList(cols), hx.QuoteIdent(t.Name)))
			if err != nil {
				run.Inconclusive("splice reference: " + err.Error())
				continue
			}
			have := map[string]int{}
			for _, r := range want {
				have[hx.RowKey(r)]++
			}
			for _, ix := range t.Indexes {
				if t.WR != 0 && ix.Origin == "pk" {
					continue
				}
				pages, err := hx.WalkTree(A, ps, ix.Root)
				if err != nil {
					continue
				}
				fromA := map[int]bool{}
				for _, p := range pages {
					fromA[p.No] = true
					for _, c := range p.Cells {
						if c.OvflOff > 0 {
							for _, op := range hx.OverflowChain(A, ps, c.Overflow) {
								fromA[op] = true
							}
						}
					}
				}
				sp := &hx.SplicePager{A: A, B: B, FromA: fromA}
				low, err := sdb.VerifOpenPager(sp, "")
				if err != nil {
					continue
				}
				db := sqlittle.VerifWrap(low)
				var got []hx.Row
				var serr error
				p, pm := safely(func() {
					serr = db.IndexedSelect(t.Name, ix.Name, func(r sqlittle.Row) { got = append(got, hx.CloneRow(r)) }, cols...)
				})
				run.Eval(1)
				run.Distinct(fmt.Sprintf("splice/%d/%s", ps, ix.Name))
				key := "C12/splice/IndexedSelect/" + tableKind(&t)
				switch {
				case p:
					run.Violation(key+"/panic", "IndexedSelect panicked on a spliced database: "+pm, nil)
				case serr != nil:
					run.See("splice_outcome", "error: "+serr.Error())
				default:
					seen := map[string]int{}
					bad := ""
					for _, r := range got {
						k := hx.RowKey(hx.Row(r))
						seen[k]++
						if have[k] == 0 {
							// compare under the documented integral-REAL normalisation as well
							found := false
							for _, w := range want {
								if hx.RowEqualDoc(w, r) {
									found = true
									break
								}
							}
							if !found {
								bad = fmt.Sprintf("delivered a row the table does not have: %s", hx.RowString(r))
								break
							}
						} else if seen[k] > have[k] {
							bad = fmt.Sprintf("delivered the row %s %d times, the table has it %d time(s)", hx.RowString(r), seen[k], have[k])
							break
						}
					}
					if bad == "" && len(got) != len(want) {
						bad = fmt.Sprintf("delivered %d rows with a nil error, the table has %d and the index (from before the DELETE) has more entries", len(got), len(want))
					}
					if bad != "" {
						run.Violation(key+"/silent", fmt.Sprintf("index %s still holds entries of deleted rows (page size %d): IndexedSelect returned err=nil but %s", ix.Name, ps, bad), hx.M{"index": ix.Name, "page_size": ps})
					} else {
						run.See("splice_outcome", "success-and-consistent")
					}
				}
			}
		}
	}
}

// c12MasterRow: one sqlite_master row is damaged so that it still decodes as a five-column record but one of
// its columns has the wrong storage class (the name or the table name stored as a BLOB, the root page as TEXT).
// The schema cannot be trusted then: listing the tables either fails, or still names every table SQLite's
// intact copy has - a listing that silently lacks the damaged table hides rows without any error.
func c12MasterRow(run *hx.Run) {
	o := mustOracle(run)
	if o == nil {
		return
	}
	defer o.Close()
	dir, cleanup := hx.ScratchDir("C12master")
	defer cleanup()
	for ci, ps := range []int{512, 4096} {
		d, err := hx.BuildDB(o, dir, fmt.Sprintf("m%d", ci), hx.M{"page_size": ps, "rows": 30, "features": []string{"plain", "alias", "wr"}}, run.Seed*29+int64(ci))
		if err != nil {
			run.Inconclusive("master-row corpus: " + err.Error())
			return
		}
		img, _ := os.ReadFile(d.Path)
		var all []string
		for _, t := range d.Meta.Tables {
			all = append(all, hx.FoldName(t.Name))
		}
		pages, err := hx.WalkTree(img, ps, 1)
		if err != nil {
			run.Inconclusive("master-row walk: " + err.Error())
			continue
		}
		for _, pg := range pages {
			if pg.Kind != 0x0d {
				continue
			}
			for ci2, c := range pg.Cells {
				if c.OvflOff != 0 || c.LocalLen < 8 {
					continue
				}
				po := (pg.No-1)*ps + c.LocalOff
				// record: header-size varint (1 byte for these small records), then one serial type per column
				hs := int(img[po])
				if hs < 6 || hs > 40 || img[po]&0x80 != 0 {
					continue
				}
				// serial types of the five columns (each may be a 1- or 2-byte varint)
				off := po + 1
				var stOff, stLen []int
				for k := 0; k < 5 && off < po+hs; k++ {
					n := 1
					if img[off]&0x80 != 0 {
						n = 2
					}
					stOff = append(stOff, off)
					stLen = append(stLen, n)
					off += n
				}
				if len(stOff) != 5 {
					continue
				}
				for _, col := range []int{1, 2} { // name, tbl_name: TEXT (odd serial type >= 13) -> BLOB of the same bytes (even, one less)
					if stLen[col] != 1 || img[stOff[col]] < 13 || img[stOff[col]]%2 == 0 {
						continue
					}
					mut := append([]byte{}, img...)
					mut[stOff[col]]--
					p := hx.NewMemPager(mut)
					h, err := openMem(p)
					run.Eval(1)
					run.Distinct(fmt.Sprintf("master-row/%d/%d/%d/%d", ps, pg.No, ci2, col))
					if err != nil {
						run.See("damaged_master_row", "refused at open")
						continue
					}
					var ts []string
					var terr error
					if pn, pm := safely(func() {
						if err := h.low.RLock(); err != nil {
							terr = err
							return
						}
						defer h.low.RUnlock()
						ts, terr = h.low.Tables()
					}); pn {
						run.Violation("C12/master-row-wrong-class/panic", firstLines(pm, 2), nil)
						continue
					}
					if terr != nil {
						run.See("damaged_master_row", "Tables() reports an error")
						continue
					}
					have := map[string]bool{}
					for _, t := range ts {
						have[hx.FoldName(t)] = true
					}
					for _, want := range all {
						if !have[want] {
							run.Violation("C12/master-row-wrong-class/table-silently-missing", fmt.Sprintf("page size %d: sqlite_master row %d of page %d has its %s column stored as a BLOB; Tables() returns %v without an error - table %q is missing from it", ps, ci2, pg.No, []string{"type", "name", "tbl_name", "rootpage", "sql"}[col], ts, want), nil)
							break
						}
					}
				}
			}
		}
	}
}

// c12HighBit: "any structure found to be corrupt -> error". A page pointer is a 32-bit number; one whose top bit
// is set names a page far beyond any file SQLite can make (SQLite: "database disk image is malformed"). A reader
// that masks or truncates the number reads an EXISTING page instead - of this tree or of another - and reports
// success. Every child pointer (left children and right-most) and overflow pointer of the b-trees of a few tables
// and indexes gets its top bit set, one at a time; the operation must fail or return the unharmed result.
func c12HighBit(run *hx.Run) {
	o := mustOracle(run)
	if o == nil {
		return
	}
	defer o.Close()
	dir, cleanup := hx.ScratchDir("C12highbit")
	defer cleanup()
	d, err := hx.BuildDB(o, dir, "hb", hx.M{"page_size": 512, "rows": 260, "features": []string{"plain", "alias", "wr", "big"}}, run.Seed*29+3)
	if err != nil {
		run.Inconclusive("high-bit corpus: " + err.Error())
		return
	}
	data, _ := os.ReadFile(d.Path)
	ps := 512
	type target struct {
		table, index string
		root         int
	}
	var targets []target
	for _, t := range d.Meta.Tables {
		if strings.HasPrefix(t.Name, "sqlite_") {
			continue
		}
		targets = append(targets, target{t.Name, "", t.Root})
		for _, ix := range t.Indexes {
			if ix.Root > 0 && !(t.WR != 0 && ix.Origin == "pk") {
				targets = append(targets, target{t.Name, ix.Name, ix.Root})
			}
		}
	}
	runOp := func(img []byte, tg target, cols []string) ([]hx.Row, error, string) {
		low, err := sdb.VerifOpenPager(hx.NewMemPager(img), "")
		if err != nil {
			return nil, err, ""
		}
		db := sqlittle.VerifWrap(low)
		defer db.Close()
		if tg.index == "" {
			return collectSelect(db, tg.table, cols)
		}
		var rows []hx.Row
		var oerr error
		_, pm := safely(func() {
			oerr = db.IndexedSelect(tg.table, tg.index, func(r sqlittle.Row) { rows = append(rows, hx.CloneRow(r)) }, cols...)
		})
		return rows, oerr, pm
	}
	nmut := 0
	for ti, tg := range targets {
		pages, err := hx.WalkTree(data, ps, tg.root)
		if err != nil {
			continue
		}
		var cols []string
		for _, t := range d.Meta.Tables {
			if t.Name == tg.table {
				cols = t.ColNames()
			}
		}
		ref, rerr, rpm := runOp(data, tg, cols)
		if rerr != nil || rpm != "" {
			continue
		}
		var offs []int // absolute file offsets of 4-byte page pointers
		inTree := map[int]bool{}
		for _, p := range pages {
			inTree[p.No] = true
			base := (p.No - 1) * ps
			if p.Interior() {
				offs = append(offs, base+p.HdrOff+8)
				for _, c := range p.Cells {
					if c.HasLeft {
						offs = append(offs, base+c.Off)
					}
				}
			}
			for _, c := range p.Cells {
				if c.OvflOff > 0 {
					offs = append(offs, base+c.OvflOff)
				}
			}
		}
		step := 1
		if !run.Thorough() && len(offs) > 24 {
			step = len(offs) / 24
		}
		for oi := (ti % step); oi < len(offs); oi += step {
			off := offs[oi]
			if off+4 > len(data) || data[off]&0x80 != 0 {
				continue
			}
			img := append([]byte{}, data...)
			img[off] |= 0x80
			// ... and the low 31 bits name another page of the same kind, outside this tree where there is one:
			// what a reader that drops the top bit would read instead
			if orig := int(binary.BigEndian.Uint32(data[off : off+4])); oi%2 == 0 && orig >= 2 && orig <= len(data)/ps {
				kind := data[(orig-1)*ps]
				np := len(data) / ps
				for k := 0; k < np-1; k++ {
					cand := 2 + (oi*7+k)%(np-1)
					if cand != orig && !inTree[cand] && data[(cand-1)*ps] == kind {
						binary.BigEndian.PutUint32(img[off:off+4], 0x80000000|uint32(cand))
						run.See("pointer_high_bit_redirected", fmt.Sprintf("to another page of kind 0x%02x", kind))
						break
					}
				}
			}
			got, gerr, pm := runOp(img, tg, cols)
			nmut++
			run.Eval(1)
			run.Distinct(fmt.Sprintf("high-bit/%s/%s/%d", tg.table, tg.index, off))
			name := "Select(" + tg.table + ")"
			if tg.index != "" {
				name = "IndexedSelect(" + tg.table + ", " + tg.index + ")"
			}
			switch {
			case pm != "":
				run.Violation("C12/pointer-high-bit/"+pmKind(pm), fmt.Sprintf("%s with the top bit of the page pointer at file offset %d set: %s", name, off, firstLines(pm, 2)), nil)
			case gerr != nil:
				run.See("pointer_high_bit", "error")
			case diffRows(ref, got) != "":
				run.Violation("C12/pointer-high-bit/silent", fmt.Sprintf("%s with the top bit of the page pointer at file offset %d set (page number %d: no such page; SQLite: malformed): success with a result that differs from the unharmed one (%d rows, unharmed %d): %s", name, off, binary.BigEndian.Uint32(img[off:off+4]), len(got), len(ref), diffRows(ref, got)), nil)
			default:
				run.See("pointer_high_bit", "unharmed result")
			}
		}
	}
	run.Count("pointer_high_bit_images", nmut)
}
