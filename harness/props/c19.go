//go:build verif

package props

import (
	"context"
	gosql "database/sql"
	"fmt"
	"math/rand"
	"os"
	"path/filepath"
	"regexp"
	"runtime"
	"sort"
	"strings"
	"time"

	"github.com/alicebob/sqlittle"
	_ "github.com/alicebob/sqlittle/driver"

	"verifharness/hx"
)

func init() { register("C19", "exploration", C19) }

// raceReports reads the race detector's log files (GORACE log_path) and
// de-duplicates reports by the pair of outermost sqlittle entry points.
func raceReports() (n int, dedup map[string]int, sample string) {
	dedup = map[string]int{}
	base := os.Getenv("VERIF_RACE_LOG")
	if base == "" {
		return 0, dedup, ""
	}
	files, _ := filepath.Glob(base + ".*")
	for _, f := range files {
		b, err := os.ReadFile(f)
		if err != nil {
			continue
		}
		blocks := strings.Split(string(b), "WARNING: DATA RACE")
		for _, bl := range blocks[1:] {
			n++
			if sample == "" {
				sample = clip(bl, 3000)
			}
			// the outermost sqlittle frame of each of the two stacks
			parts := strings.Split(bl, "Previous ")
			var outer []string
			for _, p := range parts {
				sec := p
				if i := strings.Index(sec, "\n\n"); i > 0 {
					sec = sec[:i]
				}
				last := ""
				for _, line := range strings.Split(sec, "\n") {
					t := strings.TrimSpace(line)
					if strings.HasPrefix(t, "github.com/alicebob/sqlittle") {
						if i := strings.LastIndex(t, "("); i > 0 {
							t = t[:i]
						}
						last = strings.TrimPrefix(strings.TrimPrefix(t, "github.com/alicebob/sqlittle"), "/")
					}
				}
				if last != "" {
					outer = append(outer, last)
				}
			}
			dedup[strings.Join(outer, " <-> ")]++
		}
	}
	return
}

func raceEnabledNote(run *hx.Run) {
	if os.Getenv("VERIF_RACE_LOG") == "" {
		run.Inconclusive("not running under the race detector (VERIF_RACE_LOG unset): use ./check which builds with -race for this property")
	}
}

func reportRaces(run *hx.Run, prefix string) {
	n, dedup, sample := raceReports()
	run.SetExtra("race_reports", n)
	for k, c := range dedup {
		run.Violation(prefix+"/data-race/"+k, fmt.Sprintf("the race detector reported %d data race(s) between %s; first report: %s", c, k, clip(sample, 1500)), hx.M{"report": sample})
	}
}

func goroutineSummary() string {
	buf := make([]byte, 1<<18)
	n := runtime.Stack(buf, true)
	var out []string
	for _, g := range strings.Split(string(buf[:n]), "\n\n") {
		if strings.Contains(g, "alicebob/sqlittle") {
			lines := strings.Split(g, "\n")
			if len(lines) > 6 {
				lines = lines[:6]
			}
			out = append(out, strings.Join(lines, " | "))
		}
	}
	return clip(strings.Join(out, " || "), 1500)
}

// c19Ctx is a context of a type the context package does not know: it has its own Done channel.
type c19Ctx struct {
	context.Context
	done chan struct{}
}

func (c *c19Ctx) Done() <-chan struct{} { return c.done }
func (c *c19Ctx) Err() error {
	select {
	case <-c.done:
		return context.Canceled
	default:
		return nil
	}
}

// goroutineCreators summarises "created by" lines of all goroutines (who started what is still running).
func goroutineCreators() string {
	buf := make([]byte, 1<<20)
	n := runtime.Stack(buf, true)
	counts := map[string]int{}
	for _, line := range strings.Split(string(buf[:n]), "\n") {
		if strings.HasPrefix(line, "created by ") {
			f := strings.Fields(line)
			counts[f[2]]++
		}
	}
	var out []string
	for k, c := range counts {
		out = append(out, fmt.Sprintf("%s x%d", k, c))
	}
	sort.Strings(out)
	return strings.Join(out, ", ")
}

func producerGoroutines() int {
	buf := make([]byte, 1<<20)
	n := runtime.Stack(buf, true)
	return strings.Count(string(buf[:n]), "driver.(*Statement).QueryContext.func")
}

// waitNoProducer polls (bounded number of steps) until no producer goroutine is left.
func waitNoProducer() bool {
	for i := 0; i < 400; i++ {
		if producerGoroutines() == 0 {
			return true
		}
		runtime.Gosched()
		time.Sleep(500 * time.Microsecond)
	}
	return false
}

func ourLocks(path string) []hx.ProcLock {
	locks, err := hx.FileLocks(path)
	if err != nil {
		return nil
	}
	var out []hx.ProcLock
	for _, l := range locks {
		if l.Pid == os.Getpid() {
			out = append(out, l)
		}
	}
	return out
}

// queryer is what *sql.DB, *sql.Tx and *sql.Conn have in common.
type queryer interface {
	QueryContext(ctx context.Context, query string, args ...interface{}) (*gosql.Rows, error)
}

func sqlRows(sq queryer, ctx context.Context, q string) ([]hx.Row, []string, error) {
	rs, err := sq.QueryContext(ctx, q)
	if err != nil {
		return nil, nil, err
	}
	defer rs.Close()
	cols, err := rs.Columns()
	if err != nil {
		return nil, nil, err
	}
	var out []hx.Row
	for rs.Next() {
		vals := make([]interface{}, len(cols))
		ptrs := make([]interface{}, len(cols))
		for i := range vals {
			ptrs[i] = &vals[i]
		}
		if err := rs.Scan(ptrs...); err != nil {
			return out, cols, err
		}
		for i, v := range vals {
			if b, ok := v.([]byte); ok && b == nil {
				// a non-NULL value must not come back as a nil slice (an empty blob is x'', not NULL)
				vals[i] = "<[]byte(nil) delivered for a non-NULL value>"
			}
		}
		out = append(out, hx.CloneRow(vals))
	}
	return out, cols, rs.Err()
}

func C19(run *hx.Run) {
	run.Rule = "(a) for every table of generated databases and several column lists ('*', explicit subsets, repeats): rows through database/sql vs the native DB.Select rows (same order; '*' = Columns order). (b) errors: unknown table/column, non-SELECT, syntax errors, and corruption met mid-scan (a leaf page of the file overwritten with an invalid page type, the file truncated at page boundaries) must surface through Query, Scan or rows.Err - a short result with a nil error is a violation. (c) cleanup: rows.Close() and context cancel after every row count k (and cancel racing the producer with PRNG consumer-side jitter under GOMAXPROCS 1/2/16): afterwards no producer goroutine (goroutine dump), no POSIX lock of this process on the file (/proc/locks), and a SQLite write from another process succeeds. (d) the whole run is under the Go race detector; reports are counted from its log. distinct = (database, table, column list) + (k, trial, GOMAXPROCS)"
	run.Assumptions = append(stdAssumptions, "one query at a time per file in this check (each driver statement opens its own handle; the same-process lock finding of C06 is out of scope here)")
	raceEnabledNote(run)
	rng := newRng(run, 19)
	profiles := []hx.M{{"page_size": 1024, "rows": 120}, {"page_size": 4096, "rows": 200, "frag": true}}
	if run.Thorough() {
		profiles = append(profiles, hx.M{"page_size": 512, "rows": 800}, hx.M{"page_size": 65536, "rows": 300}, hx.M{"page_size": 2048, "rows": 500, "auto_vacuum": 1},
			hx.M{"page_size": 512, "rows": 4000, "features": []string{"plain", "alias", "wr", "big"}}, hx.M{"page_size": 8192, "rows": 1500, "frag": true},
			hx.M{"page_size": 1024, "rows": 2500, "vacuum": true}, hx.M{"page_size": 16384, "rows": 900}, hx.M{"page_size": 32768, "rows": 600, "frag": true})
	}
	// (a) differential
	forEachProfile(run, profiles, func(w *worker, d *hx.DB, idx int) {
		sq, err := gosql.Open("sqlittle", d.Path)
		if err != nil {
			run.Violation("C19/open", err.Error(), nil)
			return
		}
		defer sq.Close()
		db, err := sqlittle.Open(d.Path)
		if err != nil {
			run.Violation("C19/open-native", err.Error(), nil)
			return
		}
		lrng := rand.New(rand.NewSource(run.Seed*77 + int64(idx)))
		for ti := range d.Meta.Tables {
			t := &d.Meta.Tables[ti]
			names := t.ColNames()
			ident := regexp.MustCompile(`^[A-Za-z_][A-Za-z0-9_]*$`)
			plain := ident.MatchString(t.Name)
			for _, n := range names {
				if !ident.MatchString(n) {
					plain = false
				}
			}
			if !plain {
				run.Count("tables_skipped_names_need_quoting", 1)
				continue
			}
			if _, err, _ := collectSelect(db, t.Name, names); err != nil {
				continue // native API rejects the table
			}
			lists := [][]string{{"*"}, names}
			for k := 0; k < 3; k++ {
				var l []string
				for i := 0; i < 1+lrng.Intn(len(names)+1); i++ {
					if lrng.Intn(6) == 0 {
						l = append(l, "*")
					} else {
						l = append(l, names[lrng.Intn(len(names))])
					}
				}
				lists = append(lists, l)
			}
			for _, l := range lists {
				var native []string
				for _, c := range l {
					if c == "*" {
						native = append(native, names...)
					} else {
						native = append(native, c)
					}
				}
				want, err, _ := collectSelect(db, t.Name, native)
				if err != nil {
					continue
				}
				q := fmt.Sprintf("SELECT %s FROM %s", strings.Join(l, ", "), t.Name)
				got, cols, err := sqlRows(sq, context.Background(), q)
				run.Eval(1)
				run.Distinct(fmt.Sprintf("%d/%s", idx, q))
				switch {
				case err != nil:
					run.Violation("C19/diff/error", fmt.Sprintf("%q through database/sql failed: %v (native Select works)", q, err), nil)
				case strings.Join(cols, ",") != strings.Join(native, ","):
					run.Violation("C19/diff/columns", fmt.Sprintf("%q: Columns() = %v, want %v", q, cols, native), nil)
				default:
					if df := diffRows(want, got); df != "" {
						run.Violation("C19/diff/rows/"+diffKind(want, got), fmt.Sprintf("%q: database/sql rows differ from native Select: %s", q, df), nil)
					} else {
						run.Count("rows_compared", len(got))
					}
				}
			}
		}
		// nested result sets on ONE transaction / connection: while an outer result set is open the consumer
		// runs further queries (each must return what it returns alone), then finishes the outer one
		if wantA, errA, _ := collectSelect(db, "t_alias", []string{"id", "v"}); errA == nil {
			if wantP, errP, _ := collectSelect(db, "t_plain", []string{"a"}); errP == nil && len(wantP) > 3 {
				ctx := context.Background()
				nested := func(kind string, q queryer, done func()) {
					defer done()
					outer, err := q.QueryContext(ctx, "SELECT a FROM t_plain")
					if err != nil {
						run.Violation("C19/nested/"+kind+"/outer", "outer query failed: "+err.Error(), nil)
						return
					}
					defer outer.Close()
					n := 0
					for outer.Next() {
						n++
						if n <= 3 {
							got, _, err := sqlRows(q, ctx, "SELECT id, v FROM t_alias")
							run.Eval(1)
							if err != nil {
								run.Violation("C19/nested/"+kind+"/inner-error", fmt.Sprintf("a second query on the same %s while a result set is open fails: %v (the native Select works)", kind, err), nil)
								return
							}
							if df := diffRows(wantA, got); df != "" {
								run.Violation("C19/nested/"+kind+"/inner-rows", fmt.Sprintf("a second query on the same %s while a result set is open: %s", kind, df), nil)
								return
							}
						}
					}
					if err := outer.Err(); err != nil || n != len(wantP) {
						run.Violation("C19/nested/"+kind+"/outer-rows", fmt.Sprintf("the outer result set on a %s delivered %d of %d rows (err=%v) after inner queries ran", kind, n, len(wantP), err), nil)
						return
					}
					run.See("nested_result_sets", kind)
				}
				// ONE prepared statement of a connection executed again while its first result set is still open:
				// a refusal is fine, two correct result sets are fine; two goroutines on one handle are not
				if conn, err := sq.Conn(ctx); err == nil {
					if st, err := conn.PrepareContext(ctx, "SELECT id, v FROM t_alias"); err == nil {
						for round := 0; round < 6; round++ {
							r1, err1 := st.QueryContext(ctx)
							if err1 != nil {
								run.Violation("C19/same-statement-twice/first-query", err1.Error(), nil)
								break
							}
							if round%2 == 1 {
								r1.Next()
							}
							r2, err2 := st.QueryContext(ctx)
							run.Eval(1)
							var got2 []hx.Row
							if err2 == nil {
								for r2.Next() {
									var a, b interface{}
									r2.Scan(&a, &b)
									got2 = append(got2, hx.CloneRow([]hx.Value{a, b}))
								}
								if e := r2.Err(); e != nil {
									err2 = e
								}
								r2.Close()
							}
							n1 := 0
							if round%2 == 1 {
								n1 = 1
							}
							for r1.Next() {
								n1++
							}
							e1 := r1.Err()
							r1.Close()
							if e1 != nil || n1 != len(wantA) {
								run.Violation("C19/same-statement-twice/first-result", fmt.Sprintf("the first result set of a statement that was executed again meanwhile: %d of %d rows, err=%v", n1, len(wantA), e1), nil)
								break
							}
							if err2 == nil {
								if df := diffRows(wantA, got2); df != "" {
									run.Violation("C19/same-statement-twice/second-result", "second result set of the same prepared statement: "+df, nil)
									break
								}
								run.See("same_statement_twice", "both result sets complete")
							} else {
								run.See("same_statement_twice", "second execution refused")
							}
						}
						st.Close()
					}
					conn.Close()
				}
				if tx, err := sq.BeginTx(ctx, nil); err == nil {
					nested("sql.Tx", tx, func() { tx.Rollback() })
				}
				if conn, err := sq.Conn(ctx); err == nil {
					nested("sql.Conn", conn, func() { conn.Close() })
				}
			}
		}
		db.Close()
	})

	// (b)(c) on one versioned database
	dir, cleanup := hx.ScratchDir("C19")
	defer cleanup()
	o := mustOracle(run)
	if o == nil {
		return
	}
	defer o.Close()
	path := filepath.Join(dir, "drv.sqlite")
	nrows := 60
	if err := makeVersionedDB(o, path, 1024, nrows); err != nil {
		run.Inconclusive("driver db: " + err.Error())
		return
	}
	sq, err := gosql.Open("sqlittle", path)
	if err != nil {
		run.Violation("C19/open", err.Error(), nil)
		return
	}
	defer sq.Close()
	// (b) plain error cases
	for _, ec := range []struct{ name, q string }{
		{"unknown-table", "SELECT * FROM nosuchtable"}, {"unknown-column", "SELECT id, nosuch FROM t"}, {"non-select", "CREATE TABLE x(a)"},
		{"syntax", "SELECT FROM"}, {"index-as-table", "SELECT * FROM ix_t_v"}, {"empty", ""}, {"insert", "INSERT INTO t VALUES(1)"},
	} {
		rows, _, err := sqlRows(sq, context.Background(), ec.q)
		run.Eval(1)
		run.Distinct("err/" + ec.name)
		if err == nil {
			run.Violation("C19/error-not-surfaced/"+ec.name, fmt.Sprintf("%q returned %d rows and no error through Query/Scan/rows.Err", ec.q, len(rows)), nil)
		} else {
			run.See("error_case", ec.name)
		}
		if _, err := sq.Exec(ec.q); err == nil {
			run.Violation("C19/exec-accepted/"+ec.name, fmt.Sprintf("Exec(%q) returned no error", ec.q), nil)
		}
	}
	// (b) corruption met mid-scan: damaged copies
	data, _ := os.ReadFile(path)
	meta, _ := hx.LoadMeta(o, path)
	troot := 0
	for _, t := range meta.Tables {
		if t.Name == "t" {
			troot = t.Root
		}
	}
	pages, _ := hx.WalkTree(data, 1024, troot)
	ncorr := 0
	for pi, p := range pages {
		if p.Kind != 0x0d || (pi%2 == 1 && !run.Thorough()) {
			continue
		}
		img := append([]byte{}, data...)
		img[(p.No-1)*1024] = 0x33
		cp := filepath.Join(dir, fmt.Sprintf("corr%d.sqlite", p.No))
		os.WriteFile(cp, img, 0o644)
		c19Damaged(run, cp, "leaf-page-type", nrows)
		ncorr++
	}
	for cut := 2; cut < len(data)/1024; cut += 3 {
		cp := filepath.Join(dir, fmt.Sprintf("trunc%d.sqlite", cut))
		os.WriteFile(cp, data[:cut*1024], 0o644)
		c19Damaged(run, cp, "truncated", nrows)
		ncorr++
	}
	// the same for a WITHOUT ROWID table (its scan is another code path, from the b-tree up to the driver)
	{
		wp := filepath.Join(dir, "drv-wr.sqlite")
		if err := o.Exec(wp, "PRAGMA page_size=1024", "CREATE TABLE w(k TEXT PRIMARY KEY, v, pad) WITHOUT ROWID",
			"WITH RECURSIVE c(i) AS (SELECT 1 UNION ALL SELECT i+1 FROM c WHERE i < 400) INSERT INTO w SELECT 'key' || i, i, substr('xxxxxxxxxxxxxxxxxxxxxxxxxxxxxxxxxxxxxxxxxxxxxxxxxxxxxxxxxxxxxxxx', 1, i % 60) FROM c"); err == nil {
			wdata, _ := os.ReadFile(wp)
			for cut := 2; cut < len(wdata)/1024; cut += 2 {
				cp := filepath.Join(dir, fmt.Sprintf("wr-trunc%d.sqlite", cut))
				os.WriteFile(cp, wdata[:cut*1024], 0o644)
				c19DamagedTable(run, cp, "truncated-without-rowid", "w", "k")
				ncorr++
			}
			for pg := 3; pg < len(wdata)/1024; pg += 4 {
				img := append([]byte{}, wdata...)
				img[(pg-1)*1024] = 0x33
				cp := filepath.Join(dir, fmt.Sprintf("wr-corr%d.sqlite", pg))
				os.WriteFile(cp, img, 0o644)
				c19DamagedTable(run, cp, "page-type-without-rowid", "w", "k")
				ncorr++
			}
		}
	}
	run.Count("damaged_files", ncorr)

	// prepared statements live longer than one query: they must follow schema changes, and a failed
	// execution must not leave the file locked while the statement stays open
	{
		one, err := gosql.Open("sqlittle", path)
		if err == nil {
			one.SetMaxOpenConns(1)
			stmt, err := one.Prepare("SELECT * FROM t")
			if err == nil {
				readStmt := func() ([]string, int, error) {
					rs, err := stmt.Query()
					if err != nil {
						return nil, 0, err
					}
					defer rs.Close()
					cols, _ := rs.Columns()
					n := 0
					for rs.Next() {
						n++
					}
					return cols, n, rs.Err()
				}
				c1, n1, e1 := readStmt()
				o.Exec(path, "ALTER TABLE t ADD COLUMN added_later INTEGER DEFAULT 5", "INSERT INTO t(v, ver, pad) VALUES(1, 1, 'after alter')")
				nrows++
				c2, n2, e2 := readStmt()
				run.Eval(1)
				run.Distinct("prepared/alter")
				if e1 != nil || e2 != nil {
					run.Violation("C19/prepared/error", fmt.Sprintf("prepared SELECT * before/after ALTER TABLE: %v / %v", e1, e2), nil)
				} else if len(c2) != len(c1)+1 || c2[len(c2)-1] != "added_later" || n2 != n1+1 {
					run.Violation("C19/prepared/stale-after-schema-change", fmt.Sprintf("prepared SELECT * executed again after another connection ran ALTER TABLE ADD COLUMN + INSERT: columns %v (%d rows), before: %v (%d rows); the native API reports the new column", c2, n2, c1, n1), nil)
				} else {
					run.See("prepared", "follows-schema-change")
				}
				stmt.Close()
			}
			bad, err := one.Prepare("SELECT * FROM nosuchtable")
			if err == nil {
				_, qerr := bad.Query()
				run.Eval(1)
				run.Distinct("prepared/missing-table")
				if qerr == nil {
					run.Violation("C19/prepared/error-not-surfaced", "prepared SELECT on a missing table executed without error", nil)
				}
				if l := ourLocks(path); len(l) > 0 {
					run.Violation("C19/leak/lock/prepared-statement-after-error", fmt.Sprintf("a prepared statement whose execution failed (%v) keeps the file locked while it stays open: %+v", qerr, l), nil)
				}
				if err := o.Exec(path, "UPDATE meta SET version=version+1"); err != nil {
					run.Violation("C19/leak/writer-blocked/prepared-statement-after-error", fmt.Sprintf("after a failed execution of a prepared statement (still open) a SQLite writer gets: %v", err), nil)
				}
				_, qerr2 := bad.Query()
				if qerr2 == nil || !strings.Contains(qerr2.Error(), "no such table") {
					run.Violation("C19/prepared/second-failure-differs", fmt.Sprintf("second execution of the failing prepared statement: %v (first: %v)", qerr2, qerr), nil)
				}
				bad.Close()
			}
			one.Close()
		}
	}

	// (b2) queries that FAIL, and queries read to the end, under a caller's own context type (its own Done
	// channel, as contexts from tracing/RPC libraries have): whatever the driver derives from it must be
	// released when the query is over - the runtime parks one goroutine per derived context that is never cancelled
	{
		parent := &c19Ctx{Context: context.Background(), done: make(chan struct{})}
		settle := func() int {
			n := runtime.NumGoroutine()
			for i := 0; i < 200; i++ {
				runtime.Gosched()
				time.Sleep(500 * time.Microsecond)
				m := runtime.NumGoroutine()
				if m == n && i > 20 {
					break
				}
				n = m
			}
			return n
		}
		before := settle()
		failing := []string{"SELECT * FROM nosuchtable", "DELETE FROM t", "SELEC * FROM t", "SELECT nosuchcolumn FROM t"}
		nq := 0
		for round := 0; round < 10; round++ {
			for _, q := range failing {
				rs, err := sq.QueryContext(parent, q)
				if err == nil {
					for rs.Next() {
					}
					rs.Close()
				}
				nq++
			}
			if rs, err := sq.QueryContext(parent, "SELECT * FROM t"); err == nil {
				for rs.Next() {
				}
				rs.Close()
				nq++
			}
		}
		after := settle()
		// goroutines that are merely slow to exit on a loaded machine get more chances; leaked ones stay for ever
		for i := 0; i < 4000 && after > before+3; i++ {
			runtime.Gosched()
			time.Sleep(time.Millisecond)
			after = runtime.NumGoroutine()
		}
		run.Eval(nq)
		run.Distinct("own-context-type/leak")
		if after > before+3 {
			run.Violation("C19/leak/goroutine/own-context-type", fmt.Sprintf("%d finished queries (failing ones and complete result sets) under a caller-defined context type: %d goroutines before, %d after; stacks: %s", nq, before, after, clip(goroutineCreators(), 1200)), nil)
		} else {
			run.See("cleanup_observed", "no goroutine left per finished query under a caller-defined context")
		}
		close(parent.done)
	}

	// (b3) the database file is REPLACED (new file renamed over the old name) while the *sql.DB stays open, as
	// an application that swaps in a freshly built database does: later queries read the file that has the name
	// now - the same rows a native Open of that name gives
	{
		rp := filepath.Join(dir, "replaced.sqlite")
		np := filepath.Join(dir, "replacement.sqlite")
		if err := o.Exec(rp, "CREATE TABLE r(a, b)", "INSERT INTO r VALUES(1,'old'),(2,'old'),(3,'old')"); err == nil {
			if rsq, err := gosql.Open("sqlittle", rp); err == nil {
				rsq.SetMaxOpenConns(1)
				rsq.SetMaxIdleConns(1)
				for round := 0; round < 3; round++ {
					sqlRows(rsq, context.Background(), "SELECT * FROM r")
					os.Remove(np)
					if err := o.Exec(np, "CREATE TABLE r(a, b)", fmt.Sprintf("INSERT INTO r VALUES(1,'new%d'),(2,'new%d'),(3,'new%d'),(4,'more')", round, round, round)); err != nil {
						break
					}
					if err := os.Rename(np, rp); err != nil {
						break
					}
					got, _, gerr := sqlRows(rsq, context.Background(), "SELECT * FROM r")
					var want []hx.Row
					var werr error
					if ndb, err := sqlittle.Open(rp); err == nil {
						want, werr, _ = collectSelect(ndb, "r", []string{"a", "b"})
						ndb.Close()
					}
					run.Eval(1)
					run.Distinct(fmt.Sprintf("replaced-by-rename/%d", round))
					if werr == nil && want != nil {
						if gerr != nil {
							run.Violation("C19/file-replaced/error", fmt.Sprintf("database file replaced by rename under an open *sql.DB: the next query fails: %v (a native Open of the name reads %d rows)", gerr, len(want)), nil)
							break
						}
						if df := diffRows(want, got); df != "" {
							run.Violation("C19/file-replaced/stale-rows", fmt.Sprintf("database file replaced by rename under an open *sql.DB (round %d): the next query differs from a native select on that name: %s", round, df), nil)
							break
						}
						run.See("file_replaced_under_open_pool", "rows follow the new file")
					}
				}
				rsq.Close()
			}
		}
	}

	// (b5) descriptors: when every result set is closed and every failing query has returned, the pool holds no
	// descriptor of the database file (a handle left to the garbage collector keeps the file open - and the
	// finalizer's close() later drops the POSIX locks of whoever reads the file then)
	{
		fdsOn := func(p string) int {
			n := 0
			ents, _ := os.ReadDir("/proc/self/fd")
			for _, e := range ents {
				if t, err := os.Readlink("/proc/self/fd/" + e.Name()); err == nil && t == p {
					n++
				}
			}
			return n
		}
		fp := filepath.Join(dir, "fds.sqlite")
		if err := o.Exec(fp, "CREATE TABLE f(a, b)", "INSERT INTO f VALUES(1,'x'),(2,'y'),(3,'z')"); err == nil {
			if real, err := filepath.EvalSymlinks(fp); err == nil {
				if fsq, err := gosql.Open("sqlittle", fp); err == nil {
					before := fdsOn(real)
					for i := 0; i < 20; i++ {
						sqlRows(fsq, context.Background(), "SELECT * FROM f")
						sqlRows(fsq, context.Background(), "SELECT nosuch FROM f")
						sqlRows(fsq, context.Background(), "SELECT * FROM nosuch")
						var a int
						fsq.QueryRow("SELECT a FROM f").Scan(&a)
						if rs, err := fsq.Query("SELECT a FROM f"); err == nil {
							rs.Next()
							rs.Close() // closed half way
						}
					}
					after := fdsOn(real)
					run.Eval(100)
					run.Distinct("descriptors-after-queries")
					if after > before {
						run.Violation("C19/leak/descriptor", fmt.Sprintf("100 finished queries on one *sql.DB (complete, failing, closed half way, QueryRow): %d descriptors of the database file open before, %d after - every result set is closed", before, after), nil)
					} else {
						run.See("cleanup_observed", fmt.Sprintf("descriptors of the file after 100 finished queries: %d (before: %d)", after, before))
					}
					fsq.Close()
				}
			}
		}
	}

	// (b4) quoted column names that look like syntax: `SELECT "<name>" FROM t` selects that one column, as
	// the native Select(t, cb, name) does - also when the name is `*`
	{
		qp := filepath.Join(dir, "oddnames.sqlite")
		names := []string{"*", "select", "a b", "from", "t.*", "1"}
		var defs []string
		for _, n := range names {
			defs = append(defs, `"`+n+`"`)
		}
		if err := o.Exec(qp, "CREATE TABLE t("+strings.Join(defs, ", ")+")", "INSERT INTO t VALUES(1,2,3,4,5,6),(11,12,13,14,15,16)"); err == nil {
			if qsq, err := gosql.Open("sqlittle", qp); err == nil {
				if ndb, err := sqlittle.Open(qp); err == nil {
					for _, n := range names {
						want, werr, _ := collectSelect(ndb, "t", []string{n})
						if werr != nil {
							run.See("odd_column_name", fmt.Sprintf("%q: native select refuses: %s", n, clip(werr.Error(), 40)))
							continue
						}
						got, cols, gerr := sqlRows(qsq, context.Background(), `SELECT "`+n+`" FROM t`)
						run.Eval(1)
						run.Distinct("odd-column-name/" + n)
						if gerr != nil {
							run.See("odd_column_name", fmt.Sprintf("%q: driver refuses: %s", n, clip(gerr.Error(), 40)))
							continue
						}
						if len(cols) != 1 || diffRows(want, got) != "" {
							run.Violation(fmt.Sprintf("C19/quoted-column-name/%s", n), fmt.Sprintf("table t with a column named %q: SELECT \"%s\" FROM t through database/sql returns columns %q (%d rows, first %v); the native Select of that column returns 1 column, first row %v", n, n, cols, len(got), firstRow(got), firstRow(want)), nil)
						} else {
							run.See("odd_column_name", fmt.Sprintf("%q: equal", n))
						}
					}
					ndb.Close()
				}
				qsq.Close()
			}
		}
	}

	// (c) close / cancel after every k
	checkClean := func(key, what string) {
		if !waitNoProducer() {
			run.Violation("C19/leak/goroutine/"+key, what+": the producer goroutine is still alive after the result set was closed/cancelled", nil)
		}
		if l := ourLocks(path); len(l) > 0 {
			// database/sql may still be closing the statement asynchronously: bounded wait
			ok := false
			for i := 0; i < 400 && !ok; i++ {
				time.Sleep(500 * time.Microsecond)
				ok = len(ourLocks(path)) == 0
			}
			if !ok {
				run.Violation("C19/leak/lock/"+key, fmt.Sprintf("%s: this process still holds POSIX locks on the file: %+v", what, ourLocks(path)), nil)
			}
		}
	}
	version := 100
	writeOK := func(key, what string) {
		version++
		if err := o.Exec(path, fmt.Sprintf("UPDATE meta SET version=%d", version)); err != nil {
			run.Violation("C19/leak/writer-blocked/"+key, fmt.Sprintf("%s: a SQLite write from another process failed: %v", what, err), nil)
		}
	}
	for k := 0; k <= nrows+1; k++ {
		// Close after k rows
		rs, err := sq.QueryContext(context.Background(), "SELECT * FROM t")
		if err != nil {
			run.Violation("C19/query", err.Error(), nil)
			break
		}
		n := 0
		for n < k && rs.Next() {
			n++
		}
		cerr := rs.Close()
		run.Eval(1)
		run.Distinct(fmt.Sprintf("close/%d", k))
		if cerr != nil {
			run.Violation("C19/close/error", fmt.Sprintf("rows.Close() after %d rows: %v", k, cerr), nil)
		}
		checkClean("close", fmt.Sprintf("rows.Close() after %d of %d rows", n, nrows))
		if k%10 == 0 {
			writeOK("close", fmt.Sprintf("after rows.Close() at row %d", k))
		}
		// cancel after k rows
		ctx, cancel := context.WithCancel(context.Background())
		rs, err = sq.QueryContext(ctx, "SELECT id, pad FROM t")
		if err != nil {
			cancel()
			run.Violation("C19/query", err.Error(), nil)
			break
		}
		n = 0
		for n < k && rs.Next() {
			n++
		}
		cancel()
		extra := 0
		for rs.Next() {
			extra++
		}
		rerr := rs.Err()
		rs.Close()
		run.Eval(1)
		run.Distinct(fmt.Sprintf("cancel/%d", k))
		total := n + extra
		switch {
		case total == nrows && rerr == nil:
			run.See("cancel_outcome", "all-rows-no-error")
		case rerr != nil:
			run.See("cancel_outcome", "error-after-cancel")
		default:
			// the caller cancelled: a short result is what was asked for, whatever rows.Err() says
			run.See("cancel_outcome", "short-no-error")
		}
		checkClean("cancel", fmt.Sprintf("context cancel after %d rows", n))
		if k%10 == 0 {
			writeOK("cancel", fmt.Sprintf("after cancel at row %d", k))
		}
	}
	// cancel racing the producer
	trials := 40
	if run.Thorough() {
		trials = 4000
	}
	old := runtime.GOMAXPROCS(0)
	procList := []int{1, 2, 16}
	if run.Thorough() {
		procList = []int{1, 2, 3, 4, 8, 16}
	}
	for _, procs := range procList {
		runtime.GOMAXPROCS(procs)
		for tr := 0; tr < trials; tr++ {
			k := rng.Intn(nrows + 2)
			ctx, cancel := context.WithCancel(context.Background())
			rs, err := sq.QueryContext(ctx, "SELECT * FROM t")
			if err != nil {
				cancel()
				run.Violation("C19/query", err.Error(), nil)
				continue
			}
			n := 0
			for n < k && rs.Next() {
				n++
				if rng.Intn(4) == 0 {
					runtime.Gosched()
				}
			}
			switch rng.Intn(4) {
			case 0:
				time.Sleep(time.Duration(rng.Intn(200)) * time.Microsecond)
			case 1:
				for i := 0; i < rng.Intn(20); i++ {
					runtime.Gosched()
				}
			}
			done := make(chan struct{})
			go func() { cancel(); close(done) }()
			extra := 0
			for rs.Next() {
				extra++
			}
			rerr := rs.Err()
			<-done
			cerr := rs.Close()
			run.Eval(1)
			run.DistinctN(1)
			total := n + extra
			switch {
			case total == nrows && rerr == nil:
				run.See("race_outcome", fmt.Sprintf("procs%d/all-rows", procs))
			case rerr != nil:
				run.See("race_outcome", fmt.Sprintf("procs%d/error-after-%s", procs, map[bool]string{true: "some-rows", false: "no-more-rows"}[extra > 0]))
			default:
				_ = cerr
				run.See("race_outcome", fmt.Sprintf("procs%d/short-no-error", procs))
			}
			checkClean("racing-cancel", fmt.Sprintf("racing cancel after %d rows (GOMAXPROCS %d)", n, procs))
		}
		writeOK("racing-cancel", fmt.Sprintf("after %d racing cancels at GOMAXPROCS %d", trials, procs))
	}
	runtime.GOMAXPROCS(old)
	run.Sample(hx.M{"query": "SELECT * FROM t", "rows": nrows, "close_positions": nrows + 2, "racing_trials_per_gomaxprocs": trials})
	reportRaces(run, "C19")
}

// c19Damaged: a damaged file through database/sql: an error must surface, or
// all rows SQLite... the native API delivers (if the damage is not on the path).
func c19Damaged(run *hx.Run, path, kind string, nrows int) {
	c19DamagedTable(run, path, kind, "t", "id")
}

func c19DamagedTable(run *hx.Run, path, kind, table, col string) {
	sq, err := gosql.Open("sqlittle", path)
	if err != nil {
		return
	}
	defer sq.Close()
	var rows []hx.Row
	finished := make(chan struct{})
	go func() {
		rows, _, err = sqlRows(sq, context.Background(), "SELECT * FROM "+table)
		close(finished)
	}()
	select {
	case <-finished:
	case <-time.After(30 * time.Second):
		run.Eval(1)
		run.Violation("C19/damaged/query-never-returns/"+kind, fmt.Sprintf("%s file: iterating and closing the result set of SELECT * FROM t did not return within 30 s (normal cost: milliseconds); goroutines: %s", kind, goroutineSummary()), nil)
		return
	}
	run.Eval(1)
	run.Distinct("damaged/" + path)
	// what does the native API say about the same file?
	var nativeErr error
	nativeN := 0
	if db, oerr := sqlittle.Open(path); oerr != nil {
		nativeErr = oerr
	} else {
		nativeErr = db.Select(table, func(sqlittle.Row) { nativeN++ }, col)
		db.Close()
	}
	switch {
	case err != nil:
		run.See("damaged_outcome", kind+"/error-surfaced")
		if nativeErr == nil {
			run.Violation("C19/damaged/driver-only-error/"+kind, fmt.Sprintf("%s: database/sql reports %v but the native Select succeeds", kind, err), nil)
		}
	case nativeErr != nil:
		run.Violation("C19/damaged/error-not-surfaced/"+kind, fmt.Sprintf("%s file: native Select fails with %v after %d rows, but database/sql delivered %d rows with no error from Query, Scan or rows.Err", kind, nativeErr, nativeN, len(rows)), nil)
	default:
		if len(rows) != nativeN {
			run.Violation("C19/damaged/row-count/"+kind, fmt.Sprintf("%s file: %d rows via database/sql, %d native", kind, len(rows), nativeN), nil)
		}
		run.See("damaged_outcome", kind+"/damage-not-on-path")
	}
}

func firstRow(rows []hx.Row) string {
	if len(rows) == 0 {
		return "<no rows>"
	}
	return hx.RowString(rows[0])
}
