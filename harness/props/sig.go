//go:build verif

package props

import (
	"os"
	"syscall"
)

func sigQuit() os.Signal { return syscall.SIGQUIT }
