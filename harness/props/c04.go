//go:build verif

package props

import (
	"fmt"
	"math"
	"math/rand"
	"os"
	"sort"

	"github.com/alicebob/sqlittle"
	sdb "github.com/alicebob/sqlittle/db"

	"verifharness/hx"
)

func init() { register("C04", "exploration", C04) }

type probeSet struct {
	ids  map[int64]string // rowid -> why it was chosen (first reason)
	kind map[string]int
}

func (p *probeSet) add(id int64, why string) {
	if _, ok := p.ids[id]; !ok {
		p.ids[id] = why
		p.kind[why]++
	}
}

func addNeighbours(p *probeSet, id int64, why string) {
	p.add(id, why)
	if id > math.MinInt64 {
		p.add(id-1, why+"-1")
	}
	if id < math.MaxInt64 {
		p.add(id+1, why+"+1")
	}
}

func C04(run *hx.Run) {
	run.Rule = "for every rowid table of every generated database: SelectRowid / Table.Rowid (and PKSelect on INTEGER PRIMARY KEY tables) for every present rowid (sampled above 4000 rows in quick tier), both neighbours of each, int64 min/max/0/-1, every interior-page separator key +-1 and the first/last rowid of every leaf +-1 (located by an independent page walker); expected = the row SQLite reports for that rowid, or no row and no error. distinct = distinct (database, table, rowid) probes; all probes are non-trivial (each forces a full descent)"
	run.Assumptions = append(stdAssumptions, "the page walker only chooses probe rowids; it is not an oracle")
	profiles := hx.ProfilesReps(run.Tier, run.Seed, 8)
	forEachProfile(run, profiles, func(w *worker, d *hx.DB, idx int) {
		rng := rand.New(rand.NewSource(run.Seed*733 + int64(idx)))
		data, err := os.ReadFile(d.Path) // before any sqlittle handle exists
		if err != nil {
			run.Inconclusive("read db: " + err.Error())
			return
		}
		db, err := sqlittle.Open(d.Path)
		if err != nil {
			run.Violation("C04/open", "Open failed: "+err.Error(), d.Profile)
			return
		}
		defer db.Close()
		low, err := sdb.OpenFile(d.Path)
		if err != nil {
			run.Violation("C04/open-low", "OpenFile failed: "+err.Error(), d.Profile)
			return
		}
		defer low.Close()
		for ti := range d.Meta.Tables {
			t := &d.Meta.Tables[ti]
			if t.WR != 0 {
				continue
			}
			full, err := fullExpected(w.o, d, t)
			if err != nil {
				run.Inconclusive("reference query failed: " + err.Error())
				continue
			}
			if _, err, _ := collectSelect(db, t.Name, []string{t.RowidName()}); err != nil {
				// out of scope only when the DEFINITION is refused; a scan that fails on an accepted definition
				// (a page sqlittle cannot read) must not hide the lookups on that table
				if _, cerr := db.Columns(t.Name); cerr != nil {
					run.Count("tables_rejected_by_sqlittle", 1)
					continue
				}
				run.Count("tables_scan_failed_definition_accepted", 1)
			}
			byID := map[int64]hx.Row{}
			for _, r := range full {
				byID[r[0].(int64)] = r[1:]
			}
			ps := &probeSet{ids: map[int64]string{}, kind: map[string]int{}}
			limit := 4000
			if run.Thorough() {
				limit = 40000
			}
			if len(full) <= limit {
				for id := range byID {
					addNeighbours(ps, id, "present")
				}
			} else {
				for _, r := range full {
					if rng.Intn(len(full)) < limit {
						addNeighbours(ps, r[0].(int64), "present")
					}
				}
			}
			for _, v := range []int64{0, -1, 1, math.MaxInt64, math.MinInt64, math.MaxInt64 - 1, math.MinInt64 + 1} {
				ps.add(v, "extreme")
			}
			pages, werr := hx.WalkTree(data, d.PageSize(), t.Root)
			if werr == nil {
				depth := 0
				for _, p := range pages {
					if p.Level > depth {
						depth = p.Level
					}
					if p.Kind == 0x05 {
						for _, c := range p.Cells {
							addNeighbours(ps, c.Rowid, fmt.Sprintf("separator-L%d", p.Level))
						}
					} else if p.Kind == 0x0d && len(p.Cells) > 0 {
						addNeighbours(ps, p.Cells[0].Rowid, "leaf-first")
						addNeighbours(ps, p.Cells[len(p.Cells)-1].Rowid, "leaf-last")
					}
				}
				run.See("table_depth_probed", fmt.Sprint(depth))
			} else {
				run.Count("walker_failed", 1)
			}
			ids := make([]int64, 0, len(ps.ids))
			for id := range ps.ids {
				ids = append(ids, id)
			}
			sort.Slice(ids, func(a, b int) bool { return ids[a] < ids[b] })
			cols := t.ColNames()
			tab, terr := low.Table(t.Name)
			present, absent := 0, 0
			// results kept WITHOUT copying across later lookups: a row or record handed out by one lookup must
			// not change when the next lookup runs (SelectRowid's row can only be used after the call returned)
			var keptRow sqlittle.Row
			var keptRowCopy hx.Row
			var keptRec sdb.Record
			var keptRecCopy hx.Row
			keptID := int64(0)
			for pi, id := range ids {
				why := ps.ids[id]
				want, has := byID[id]
				var row sqlittle.Row
				var err error
				p, pm := safely(func() { row, err = db.SelectRowid(t.Name, id, cols...) })
				run.Eval(1)
				key := fmt.Sprintf("C04/SelectRowid/%s", why)
				detail := hx.M{"profile": d.Profile, "db_seed": d.Seed, "table": t.Name, "rowid": fmt.Sprint(id), "why": why}
				switch {
				case p:
					run.Violation(key+"/panic", "panic: "+pm, detail)
				case err != nil:
					run.Violation(key+"/error", fmt.Sprintf("SelectRowid(%s, %d) error: %v", t.Name, id, err), detail)
				case has && row == nil:
					run.Violation(key+"/missing", fmt.Sprintf("SelectRowid(%s, %d): no row, but the rowid exists (%s)", t.Name, id, hx.ProfileName(idx, d.Profile)), detail)
				case !has && row != nil:
					run.Violation(key+"/phantom", fmt.Sprintf("SelectRowid(%s, %d) returned %s for an absent rowid", t.Name, id, hx.RowString(row)), detail)
				case has && !hx.RowEqualDoc(want, hx.Row(row)):
					run.Violation(key+"/values", fmt.Sprintf("SelectRowid(%s, %d) = %s, SQLite %s", t.Name, id, hx.RowString(row), hx.RowString(want)), detail)
				}
				// the existence question alone: no column names. Present = an (empty) row, absent = nil
				if !p && err == nil && pi%7 == 0 {
					var row0 sqlittle.Row
					var err0 error
					p0, pm0 := safely(func() { row0, err0 = db.SelectRowid(t.Name, id) })
					calls := 0
					var errp error
					pp, pmp := safely(func() { errp = db.PKSelect(t.Name, sqlittle.Key{id}, func(sqlittle.Row) { calls++ }) })
					run.Eval(1)
					switch {
					case p0 || (pp && t.RowidAlias != nil):
						run.Violation("C04/no-columns/panic", fmt.Sprintf("SelectRowid/PKSelect(%s, %d) without column names: panic: %s%s", t.Name, id, firstLines(pm0, 2), firstLines(pmp, 2)), detail)
					case err0 != nil:
						run.Violation("C04/no-columns/error", fmt.Sprintf("SelectRowid(%s, %d) without column names: %v", t.Name, id, err0), detail)
					case has != (row0 != nil):
						run.Violation("C04/no-columns/presence", fmt.Sprintf("SelectRowid(%s, %d) without column names reports the rowid as %s; with columns as %s", t.Name, id, map[bool]string{true: "present", false: "absent"}[row0 != nil], map[bool]string{true: "present", false: "absent"}[has]), detail)
					case t.RowidAlias != nil && errp == nil && (calls == 1) != has:
						run.Violation("C04/no-columns/presence-pkselect", fmt.Sprintf("PKSelect(%s, Key{%d}) without column names calls back %d times; the rowid is %s", t.Name, id, calls, map[bool]string{true: "present", false: "absent"}[has]), detail)
					default:
						run.See("no_column_lookups", map[bool]string{true: "present", false: "absent"}[has])
					}
				}
				if keptRow != nil && !hx.RowEqualStrict(hx.Row(keptRow), keptRowCopy) {
					run.Violation("C04/SelectRowid/earlier-result-changed", fmt.Sprintf("the row SelectRowid(%s, %d) returned changed when SelectRowid(%d) ran: was %s, now %s", t.Name, keptID, id, hx.RowString(keptRowCopy), hx.RowString(hx.Row(keptRow))), detail)
					keptRow = nil
				}
				if row != nil && !p && err == nil {
					keptRow, keptRowCopy, keptID = row, hx.CloneRow(row), id
				}
				if has {
					present++
				} else {
					absent++
				}
				run.Distinct(fmt.Sprintf("%d/%s/%d", idx, t.Name, id))
				// low-level
				if terr == nil {
					var rec sdb.Record
					p, pm := safely(func() { rec, err = tab.Rowid(id) })
					run.Eval(1)
					switch {
					case p:
						run.Violation("C04/Table.Rowid/"+why+"/panic", "panic: "+pm, detail)
					case err != nil:
						run.Violation("C04/Table.Rowid/"+why+"/error", fmt.Sprintf("Table.Rowid(%d) error: %v", id, err), detail)
					case has != (rec != nil):
						run.Violation("C04/Table.Rowid/"+why+"/presence", fmt.Sprintf("Table(%s).Rowid(%d): record present=%v, SQLite present=%v", t.Name, id, rec != nil, has), detail)
					}
					if keptRec != nil && !hx.RowEqualStrict(hx.Row(keptRec), keptRecCopy) {
						run.Violation("C04/Table.Rowid/earlier-result-changed", fmt.Sprintf("the record of an earlier Table(%s).Rowid call changed when Rowid(%d) ran: was %s, now %s", t.Name, id, hx.RowString(keptRecCopy), hx.RowString(hx.Row(keptRec))), detail)
						keptRec = nil
					}
					if rec != nil && !p && err == nil {
						keptRec, keptRecCopy = rec, recordToRow(rec)
					}
				}
				// PKSelect on alias tables
				if t.RowidAlias != nil {
					got, err, pm := collectPK(db, t.Name, sqlittle.Key{id}, cols)
					run.Eval(1)
					switch {
					case pm != "":
						run.Violation("C04/PKSelect/"+why+"/panic", "panic: "+pm, detail)
					case err != nil:
						run.Violation("C04/PKSelect/"+why+"/error", fmt.Sprintf("PKSelect(%s, %d) error: %v", t.Name, id, err), detail)
					case has && (len(got) != 1 || !hx.RowEqualDoc(want, got[0])):
						run.Violation("C04/PKSelect/"+why+"/values", fmt.Sprintf("PKSelect(%s, %d) returned %d rows, want exactly the stored row", t.Name, id, len(got)), detail)
					case !has && len(got) != 0:
						run.Violation("C04/PKSelect/"+why+"/phantom", fmt.Sprintf("PKSelect(%s, %d) returned rows for an absent key", t.Name, id), detail)
					}
					// the same rowid in the other Go types a Key "accepts and converts" (int, int32, uint, uint32, bool)
					if gk := goTypedKey([]hx.Value{id}, pi); pm == "" && err == nil {
						if _, same := gk[0].(int64); !same {
							got2, err2, pm2 := collectPK(db, t.Name, gk, cols)
							run.Eval(1)
							switch {
							case pm2 != "":
								run.Violation("C04/PKSelect/go-typed-key/panic", fmt.Sprintf("PKSelect(%s, Key{%T(%d)}): panic: %s", t.Name, gk[0], id, firstLines(pm2, 2)), detail)
							case err2 != nil:
								run.Violation("C04/PKSelect/go-typed-key/error", fmt.Sprintf("PKSelect(%s, Key{%T(%d)}) error: %v; Key{int64(%d)} is answered (a Key converts the Go integer types)", t.Name, gk[0], id, err2, id), detail)
							case diffRows(got, got2) != "":
								run.Violation("C04/PKSelect/go-typed-key/values", fmt.Sprintf("PKSelect(%s, Key{%T(%d)}) differs from Key{int64(%d)}: %s", t.Name, gk[0], id, id, diffRows(got, got2)), detail)
							default:
								run.See("go_typed_rowid_keys", fmt.Sprintf("%T", gk[0]))
							}
						}
					}
				}
			}
			// the same probes again in other ORDERS on the same (warm) handles: what one lookup leaves behind in a
			// cached page (a search hint, a memo) must not change the answer of the next one. Descending order makes
			// every lookup follow its right neighbour (absent separator key, then a present row of the same leaf).
			orders := map[string][]int64{}
			desc := append([]int64{}, ids...)
			sort.Slice(desc, func(a, b int) bool { return desc[a] > desc[b] })
			orders["descending"] = desc
			shuf := append([]int64{}, ids...)
			rng.Shuffle(len(shuf), func(a, b int) { shuf[a], shuf[b] = shuf[b], shuf[a] })
			orders["shuffled"] = shuf
			// absent probe immediately followed by its present left neighbours
			var pairs []int64
			for _, id := range ids {
				if _, has := byID[id]; !has {
					for _, d := range []int64{1, 2, 3} {
						if _, ok := byID[id-d]; ok && id-d < id {
							pairs = append(pairs, id, id-d)
						}
					}
				}
			}
			orders["absent-then-left-neighbour"] = pairs
			for oname, seq := range orders {
				for _, id := range seq {
					want, has := byID[id]
					var row sqlittle.Row
					var err error
					p, pm := safely(func() { row, err = db.SelectRowid(t.Name, id, cols...) })
					run.Eval(1)
					key := "C04/SelectRowid/order-" + oname
					detail := hx.M{"profile": d.Profile, "db_seed": d.Seed, "table": t.Name, "rowid": fmt.Sprint(id), "order": oname}
					switch {
					case p:
						run.Violation(key+"/panic", "panic: "+pm, detail)
					case err != nil:
						run.Violation(key+"/error", fmt.Sprintf("SelectRowid(%s, %d) error: %v", t.Name, id, err), detail)
					case has != (row != nil):
						run.Violation(key+"/presence", fmt.Sprintf("SelectRowid(%s, %d) in %s order on a warm handle: row present=%v, SQLite present=%v", t.Name, id, oname, row != nil, has), detail)
					case has && !hx.RowEqualDoc(want, hx.Row(row)):
						run.Violation(key+"/values", fmt.Sprintf("SelectRowid(%s, %d) in %s order = %s, SQLite %s", t.Name, id, oname, hx.RowString(row), hx.RowString(want)), detail)
					}
					if terr == nil {
						var rec sdb.Record
						p, pm := safely(func() { rec, err = tab.Rowid(id) })
						run.Eval(1)
						switch {
						case p:
							run.Violation("C04/Table.Rowid/order-"+oname+"/panic", "panic: "+pm, detail)
						case err != nil:
							run.Violation("C04/Table.Rowid/order-"+oname+"/error", fmt.Sprintf("Table.Rowid(%d) error: %v", id, err), detail)
						case has != (rec != nil):
							run.Violation("C04/Table.Rowid/order-"+oname+"/presence", fmt.Sprintf("Table(%s).Rowid(%d) in %s order: record present=%v, SQLite present=%v", t.Name, id, oname, rec != nil, has), detail)
						}
					}
				}
				run.See("probe_order", oname)
			}
			// keys that are no integer: a REAL with a fraction or beyond int64 equals no rowid
			if t.RowidAlias != nil && len(ids) > 0 {
				for _, id := range []int64{ids[0], ids[len(ids)/2], ids[len(ids)-1], 0, 1} {
					for _, fk := range []float64{float64(id) + 0.5, float64(id) - 0.25, 1e19, -1e19, math.Inf(1), 9223372036854775808} {
						if fk == math.Trunc(fk) && fk >= -9.2e18 && fk <= 9.2e18 {
							continue
						}
						got, _, pm := collectPK(db, t.Name, sqlittle.Key{fk}, cols)
						run.Eval(1)
						if pm != "" {
							run.Violation("C04/PKSelect/real-key/"+pmKind(pm), fmt.Sprintf("PKSelect(%s, %v): %s", t.Name, fk, firstLines(pm, 2)), nil)
						} else if len(got) != 0 {
							run.Violation("C04/PKSelect/real-key/phantom", fmt.Sprintf("PKSelect(%s, Key{%v}) returned %s; no rowid equals that REAL (an error or no row is right)", t.Name, fk, hx.RowString(got[0])), nil)
						}
					}
				}
				run.See("probe_order", "real-valued keys")
			}
			for k, n := range ps.kind {
				run.Count("probes_"+k, n)
			}
			run.Count("probes_present", present)
			run.Count("probes_absent", absent)
			// differential sample straight against SQLite
			var sample [][]hx.Value
			var sampleIDs []int64
			for i := 0; i < 60 && len(ids) > 0; i++ {
				id := ids[rng.Intn(len(ids))]
				sample = append(sample, []hx.Value{id})
				sampleIDs = append(sampleIDs, id)
			}
			res, err := w.o.QueryMany(d.Path, fmt.Sprintf("SELECT %s FROM %s WHERE %s = ?", selectList(cols), hx.QuoteIdent(t.Name), t.RowidName()), sample)
			if err != nil {
				run.Inconclusive("reference rowid query failed: " + err.Error())
				continue
			}
			for i, rr := range res {
				row, err := db.SelectRowid(t.Name, sampleIDs[i], cols...)
				run.Eval(1)
				if err != nil || (len(rr) == 0) != (row == nil) || (len(rr) == 1 && !hx.RowEqualDoc(rr[0], hx.Row(row))) {
					run.Violation("C04/SelectRowid/direct-differential", fmt.Sprintf("SelectRowid(%s, %d) = %v,%v; SQLite WHERE rowid=? gives %d rows", t.Name, sampleIDs[i], row, err, len(rr)), nil)
				}
			}
			if ti%4 == 0 && len(ids) > 3 {
				run.Sample(hx.M{"db": hx.ProfileName(idx, d.Profile), "table": t.Name, "rows": len(full), "probes": len(ids),
					"example": fmt.Sprintf("rowid %d (%s) present=%v", ids[len(ids)/2], ps.ids[ids[len(ids)/2]], byID[ids[len(ids)/2]] != nil)})
			}
		}
	})
	// WITHOUT ROWID tables must be refused by SelectRowid (documented), never answered
	if run.Seen("table_depth_probed", "2") == 0 {
		run.Inconclusive("no table tree of depth >= 2 was probed")
	}
}
