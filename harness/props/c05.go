//go:build verif

package props

import (
	"bufio"
	"encoding/binary"
	"encoding/hex"
	"encoding/json"
	"fmt"
	"io"
	"math/rand"
	"os"
	"os/exec"
	"path/filepath"
	"runtime"
	"runtime/debug"
	"sort"
	"strings"
	"sync"
	"time"

	sdb "github.com/alicebob/sqlittle/db"

	"verifharness/hx"
)

func init() {
	register("C05", "exploration", C05)
	workerMains["c05"] = c05Worker
}

// ---- case description (parent -> worker) ----

type patch struct {
	Off int    `json:"off"`
	Hex string `json:"hex"`
}

type c05Case struct {
	ID      int      `json:"id"`
	Seed    string   `json:"seed"` // path of the seed image
	Patches []patch  `json:"patches"`
	Trunc   int      `json:"trunc"`   // -1: keep length
	Journal string   `json:"journal"` // "", "absent", or hex bytes
	File    bool     `json:"file"`    // also run the file pager + driver paths
	Kinds   []string `json:"kinds"`
	Hints   []string `json:"hints"`
}

type c05Reply struct {
	ID       int         `json:"id"`
	Findings []exFinding `json:"findings"`
	Ops      int         `json:"ops"`
	Rows     int         `json:"rows"`
	Errors   []string    `json:"errors"`
	OpenErr  string      `json:"open_err"`
}

func applyCase(seed []byte, c *c05Case) []byte {
	img := append([]byte{}, seed...)
	for _, p := range c.Patches {
		b, _ := hex.DecodeString(p.Hex)
		for i, x := range b {
			if p.Off+i >= 0 && p.Off+i < len(img) {
				img[p.Off+i] = x
			}
		}
	}
	if c.Trunc >= 0 && c.Trunc < len(img) {
		img = img[:c.Trunc]
	}
	return img
}

// ---- worker ----

func c05Worker(args []string) {
	debug.SetMaxStack(256 << 20)
	debug.SetGCPercent(50)
	scratch := args[0]
	// heap watchdog: unbounded allocation is a verdict, reported before the OOM killer acts
	go func() {
		var ms runtime.MemStats
		for {
			time.Sleep(100 * time.Millisecond)
			runtime.ReadMemStats(&ms)
			if ms.HeapAlloc > 3<<30 {
				fmt.Fprintf(os.Stderr, "VERIF-HEAP-LIMIT heap=%d\n", ms.HeapAlloc)
				buf := make([]byte, 1<<16)
				n := runtime.Stack(buf, true)
				os.Stderr.Write(buf[:n])
				os.Exit(97)
			}
		}
	}()
	seeds := map[string][]byte{}
	in := bufio.NewReaderSize(os.Stdin, 1<<20)
	out := bufio.NewWriter(os.Stdout)
	for {
		line, err := in.ReadBytes('\n')
		if len(line) > 1 {
			var c c05Case
			if jerr := json.Unmarshal(line, &c); jerr != nil {
				fmt.Fprintln(os.Stderr, "bad case:", jerr)
				os.Exit(3)
			}
			seed, ok := seeds[c.Seed]
			if !ok {
				seed, _ = os.ReadFile(c.Seed)
				seeds[c.Seed] = seed
			}
			img := applyCase(seed, &c)
			rep := runC05Case(img, &c, scratch)
			b, _ := json.Marshal(rep)
			out.Write(b)
			out.WriteByte('\n')
			out.Flush()
		}
		if err != nil {
			return
		}
	}
}

func runC05Case(img []byte, c *c05Case, scratch string) c05Reply {
	rep := c05Reply{ID: c.ID}
	npages := len(img)/512 + 1
	ex := &exerciser{hints: c.Hints, errsSeen: map[string]int{}, rot: c.ID * 3}
	ex.rdBudget = int64(200*npages + 20000)
	ex.cbBudget = 64*(len(img)/4+16) + 4096
	p := hx.NewMemPager(img)
	p.Budget = ex.rdBudget
	ex.p = p
	var d *sdb.Database
	var err error
	if pn, msg := safely(func() { d, err = sdb.VerifOpenPager(p, "") }); pn {
		rep.Findings = append(rep.Findings, exFinding{"panic", "Open", panicSite(msg), msg})
	} else if err != nil {
		rep.OpenErr = err.Error()
	} else {
		h, _ := openMem(p)
		_ = d
		ex.h = h
		ex.exercise()
	}
	rep.Findings = append(rep.Findings, ex.findings...)
	rep.Ops = ex.opsRun
	rep.Rows = ex.rowsSeen
	for k := range ex.errsSeen {
		rep.Errors = append(rep.Errors, k)
	}
	if c.File {
		path := filepath.Join(scratch, "case.sqlite")
		os.WriteFile(path, img, 0o644)
		jp := path + "-journal"
		os.Remove(jp)
		if c.Journal != "" && c.Journal != "absent" {
			jb, _ := hex.DecodeString(c.Journal)
			os.WriteFile(jp, jb, 0o644)
		}
		f, rows := exerciseFile(path, c.Hints, ex.cbBudget)
		rep.Findings = append(rep.Findings, f...)
		rep.Rows += rows
	}
	return rep
}

// ---- mutation generator (parent) ----

func varintEnc(v uint64) []byte {
	if v <= 0x7f {
		return []byte{byte(v)}
	}
	if v > 0x00ffffffffffffff {
		b := make([]byte, 9)
		b[8] = byte(v)
		v >>= 8
		for i := 7; i >= 0; i-- {
			b[i] = byte(v&0x7f) | 0x80
			v >>= 7
		}
		return b
	}
	var tmp []byte
	for v > 0 {
		tmp = append([]byte{byte(v & 0x7f)}, tmp...)
		v >>= 7
	}
	for i := 0; i < len(tmp)-1; i++ {
		tmp[i] |= 0x80
	}
	return tmp
}

func u32(v uint32) []byte { b := make([]byte, 4); binary.BigEndian.PutUint32(b, v); return b }
func u16(v uint16) []byte { b := make([]byte, 2); binary.BigEndian.PutUint16(b, v); return b }

type seedInfo struct {
	path  string
	data  []byte
	ps    int
	pages []*hx.WPage // all b-tree pages reachable from known roots
	hints []string
	name  string
}

// hostile varint values
func hostileVarints(rng *rand.Rand, cur int64) [][]byte {
	vs := []uint64{0, 1, 2, 11, 12, 13, 127, 128, 16383, 16384, 1 << 31, 1<<32 - 1, 1 << 32, 1<<62 + 5, 1<<63 - 1, 1 << 63, ^uint64(0), ^uint64(0) - 6,
		uint64(cur + 1), uint64(cur - 1), uint64(cur * 2), uint64(cur + 1000)}
	out := [][]byte{}
	for _, v := range vs {
		out = append(out, varintEnc(v))
	}
	out = append(out, []byte{0x80, 0x80, 0x80, 0x80, 0x80, 0x80, 0x80, 0x80, 0x01}, []byte{0xff, 0xff, 0xff, 0xff, 0xff, 0xff, 0xff, 0xff, 0xff},
		[]byte{0x81, 0x80, 0x80, 0x80, 0x00}, []byte{0xff, 0xff, 0xff, 0xff, 0xff, 0xff, 0xff, 0xff})
	return out
}

// one mutation: returns patches, truncation (or -1) and its kind name
func (s *seedInfo) mutate(rng *rand.Rand) ([]patch, int, string) {
	npages := len(s.data) / s.ps
	pick := func() *hx.WPage { return s.pages[rng.Intn(len(s.pages))] }
	pageOff := func(p *hx.WPage) int { return (p.No - 1) * s.ps }
	kinds := []string{"dag-chain", "overflow-rho", "overflow-rho", "ptr", "ptr", "cellcount", "cellptr", "varint-payloadlen", "varint-rowid", "varint-hdrsize", "varint-serial", "pagetype",
		"master-rootpage", "master-sql", "master-type", "header", "truncate", "flip", "overflow-ptr", "overflow-ptr", "free-bytes"}
	for tries := 0; tries < 50; tries++ {
		kind := kinds[rng.Intn(len(kinds))]
		switch kind {
		case "dag-chain":
			// no cycle, yet exponential: every child pointer of interior page P0 names P1, every one of P1 names P2, ...
			// (interior pages of one kind chained as levels; the last keeps its own children). A walk that does not
			// remember which interior pages it has seen visits fanout^levels leaves.
			groups := map[byte][]*hx.WPage{}
			for _, q := range s.pages {
				if q.Interior() && len(q.Cells) > 0 {
					groups[q.Kind] = append(groups[q.Kind], q)
				}
			}
			var chain []*hx.WPage
			for _, g := range groups {
				if len(g) >= 3 && len(g) > len(chain) {
					chain = g
				}
			}
			if len(chain) < 3 {
				continue
			}
			// the root first (level 1), then the others
			sort.SliceStable(chain, func(a, b int) bool { return chain[a].Level < chain[b].Level })
			if len(chain) > 9 {
				chain = chain[:9]
			}
			var ps []patch
			for i := 0; i+1 < len(chain); i++ {
				next := hex.EncodeToString(u32(uint32(chain[i+1].No)))
				for _, c := range chain[i].Cells {
					ps = append(ps, patch{pageOff(chain[i]) + c.Off, next})
				}
				ps = append(ps, patch{pageOff(chain[i]) + chain[i].HdrOff + 8, next})
			}
			return ps, -1, "dag-chain"
		case "ptr":
			// pick among the interior pages (a uniform pick over all pages almost never hits one)
			var interior []*hx.WPage
			for _, q := range s.pages {
				if q.Interior() {
					interior = append(interior, q)
				}
			}
			if len(interior) == 0 {
				continue
			}
			p := interior[rng.Intn(len(interior))]
			targets := []uint32{0, uint32(p.No), uint32(p.Parent), uint32(npages), uint32(npages + 1), 1 << 31, 1<<32 - 1, 1, uint32(1 + rng.Intn(npages)), uint32(s.pages[rng.Intn(len(s.pages))].No)}
			t := targets[rng.Intn(len(targets))]
			if rng.Intn(3) == 0 || len(p.Cells) == 0 {
				return []patch{{pageOff(p) + p.HdrOff + 8, hex.EncodeToString(u32(t))}}, -1, "rightmost-ptr"
			}
			c := p.Cells[rng.Intn(len(p.Cells))]
			return []patch{{pageOff(p) + c.Off, hex.EncodeToString(u32(t))}}, -1, "child-ptr"
		case "overflow-rho":
			// a chain that loops back into its middle (3->4->5->4) on a cell whose declared payload
			// length is far larger than the file, rebuilt so that the cell stays self-consistent
			// among the pages that have a spilled cell at all (a uniform pick over all pages rarely finds one)
			var withOvfl []*hx.WPage
			for _, q := range s.pages {
				if q.Kind == 0x05 {
					continue
				}
				for _, c := range q.Cells {
					if c.OvflOff > 0 && c.OvflOff+4 <= s.ps {
						withOvfl = append(withOvfl, q)
						break
					}
				}
			}
			if len(withOvfl) == 0 {
				continue
			}
			p := withOvfl[rng.Intn(len(withOvfl))]
			type cand struct {
				i int
				c hx.WCell
			}
			var cands []cand
			for i, c := range p.Cells {
				if c.OvflOff > 0 && c.OvflOff+4 <= s.ps {
					cands = append(cands, cand{i, c})
				}
			}
			if len(cands) == 0 {
				continue
			}
			cd := cands[rng.Intn(len(cands))]
			c := cd.c
			chain := hx.OverflowChain(s.data, s.ps, c.Overflow)
			if len(chain) < 2 {
				continue
			}
			k := 1 + rng.Intn(len(chain)-1)
			j := rng.Intn(k + 1)
			if len(chain) >= 3 && rng.Intn(3) != 0 {
				// the proper rho: the loop neither contains the first page of the chain nor is a self loop
				k = 2 + rng.Intn(len(chain)-2)
				j = 1 + rng.Intn(k-1)
			}
			targets := []int64{1 << 31, 1 << 40, 1 << 40, 1 << 62, 1 << 62, int64(len(s.data)) * 4, int64(len(s.data)) * 1000}
			tgt := targets[rng.Intn(len(targets))]
			u4 := int64(s.ps - 4)
			newP := c.PayloadLen + ((tgt-c.PayloadLen)/u4)*u4 // same K, hence the same local size
			if newP <= c.PayloadLen {
				continue
			}
			nv := varintEnc(uint64(newP))
			po := pageOff(p)
			var cell []byte
			cell = append(cell, s.data[po+c.Off:po+c.PLOff]...)
			cell = append(cell, nv...)
			cell = append(cell, s.data[po+c.PLOff+c.PLN:po+c.OvflOff+4]...)
			delta := len(nv) - c.PLN
			newStart := c.Off - delta
			if newStart < p.PtrOff+2*p.NCells {
				continue
			}
			return []patch{
				{po + newStart, hex.EncodeToString(cell)},
				{po + p.PtrOff + 2*cd.i, hex.EncodeToString(u16(uint16(newStart)))},
				{(chain[k] - 1) * s.ps, hex.EncodeToString(u32(uint32(chain[j])))},
			}, -1, "overflow-rho-huge-length"
		case "overflow-ptr":
			p := pick()
			var cands []hx.WCell
			for _, c := range p.Cells {
				if c.OvflOff > 0 {
					cands = append(cands, c)
				}
			}
			if len(cands) == 0 {
				continue
			}
			c := cands[rng.Intn(len(cands))]
			chain := hx.OverflowChain(s.data, s.ps, c.Overflow)
			if rng.Intn(2) == 0 && len(chain) > 0 {
				// make the chain cyclic / self-referential / dangling from inside
				at := chain[rng.Intn(len(chain))]
				targets := []uint32{uint32(at), uint32(chain[0]), uint32(p.No), uint32(npages + 5), 1<<32 - 1, 1}
				return []patch{{(at - 1) * s.ps, hex.EncodeToString(u32(targets[rng.Intn(len(targets))]))}}, -1, "overflow-chain-next"
			}
			targets := []uint32{0, uint32(p.No), uint32(npages + 1), 1<<32 - 1, 1, uint32(1 + rng.Intn(npages))}
			return []patch{{pageOff(p) + c.OvflOff, hex.EncodeToString(u32(targets[rng.Intn(len(targets))]))}}, -1, "overflow-first"
		case "cellcount":
			p := pick()
			vals := []uint16{0, 1, uint16(s.ps), 0xffff, uint16(p.NCells + 1), uint16(p.NCells * 2), uint16(p.NCells + 100), uint16(s.ps / 2)}
			return []patch{{pageOff(p) + p.HdrOff + 3, hex.EncodeToString(u16(vals[rng.Intn(len(vals))]))}}, -1, "cell-count"
		case "cellptr":
			p := pick()
			if p.NCells == 0 {
				continue
			}
			i := rng.Intn(p.NCells)
			vals := []uint16{0, uint16(s.ps), uint16(s.ps - 1), uint16(s.ps - 2), uint16(s.ps - 4), 0xffff, uint16(p.HdrOff), uint16(p.HdrOff + 4), 8, uint16(rng.Intn(s.ps)), uint16(p.Cells[rng.Intn(len(p.Cells))].Off + 1)}
			if s.ps < 65535 {
				vals = append(vals, uint16(s.ps+1))
			}
			return []patch{{pageOff(p) + p.PtrOff + 2*i, hex.EncodeToString(u16(vals[rng.Intn(len(vals))]))}}, -1, "cell-pointer"
		case "varint-payloadlen":
			p := pick()
			if p.Kind == 0x05 || len(p.Cells) == 0 {
				continue
			}
			c := p.Cells[rng.Intn(len(p.Cells))]
			hv := hostileVarints(rng, c.PayloadLen)
			// also lengths around what is left in the page
			left := s.ps - c.LocalOff
			hv = append(hv, varintEnc(uint64(left)), varintEnc(uint64(left+1)), varintEnc(uint64(left-1)), varintEnc(uint64(s.ps-35)), varintEnc(uint64(s.ps-34)))
			return []patch{{pageOff(p) + c.PLOff, hex.EncodeToString(hv[rng.Intn(len(hv))])}}, -1, "payload-length"
		case "varint-rowid":
			p := pick()
			if p.IsIndex() || len(p.Cells) == 0 {
				continue
			}
			c := p.Cells[rng.Intn(len(p.Cells))]
			hv := hostileVarints(rng, c.Rowid)
			return []patch{{pageOff(p) + c.RowidOff, hex.EncodeToString(hv[rng.Intn(len(hv))])}}, -1, "rowid-varint"
		case "varint-hdrsize", "varint-serial":
			p := pick()
			if p.Kind == 0x05 || len(p.Cells) == 0 {
				continue
			}
			c := p.Cells[rng.Intn(len(p.Cells))]
			base := pageOff(p) + c.LocalOff
			if base+c.LocalLen > len(s.data) || c.LocalLen <= 0 {
				continue
			}
			rl, ok := hx.ParseRecordLayout(s.data[base : base+c.LocalLen])
			if !ok {
				continue
			}
			if kind == "varint-hdrsize" {
				hv := hostileVarints(rng, rl.HdrSize)
				hv = append(hv, varintEnc(uint64(c.LocalLen)), varintEnc(uint64(c.LocalLen+1)), varintEnc(uint64(c.PayloadLen)), varintEnc(uint64(c.PayloadLen+1)))
				return []patch{{base, hex.EncodeToString(hv[rng.Intn(len(hv))])}}, -1, "record-header-size"
			}
			if len(rl.SerialOffs) == 0 {
				continue
			}
			i := rng.Intn(len(rl.SerialOffs))
			hv := hostileVarints(rng, rl.SerialTypes[i])
			for _, st := range []uint64{0, 1, 2, 3, 4, 5, 6, 7, 8, 9, 10, 11, 12, 13, 14, 15, 1000, 100001} {
				hv = append(hv, varintEnc(st))
			}
			return []patch{{base + rl.SerialOffs[i], hex.EncodeToString(hv[rng.Intn(len(hv))])}}, -1, "serial-type"
		case "pagetype":
			p := pick()
			vals := []byte{0, 2, 5, 10, 13, 1, 255, 3}
			return []patch{{pageOff(p) + p.HdrOff, hex.EncodeToString([]byte{vals[rng.Intn(len(vals))]})}}, -1, "page-type"
		case "master-rootpage", "master-sql", "master-type":
			// sqlite_master lives in the tree at page 1
			var leaves []*hx.WPage
			for _, p := range s.pages {
				if p.Kind == 0x0d && (p.No == 1 || p.Parent == 1 || p.Level <= 3 && rootOf(s.pages, p) == 1) {
					leaves = append(leaves, p)
				}
			}
			if len(leaves) == 0 {
				continue
			}
			p := leaves[rng.Intn(len(leaves))]
			if len(p.Cells) == 0 {
				continue
			}
			c := p.Cells[rng.Intn(len(p.Cells))]
			base := pageOff(p) + c.LocalOff
			if c.LocalLen <= 0 || base+c.LocalLen > len(s.data) {
				continue
			}
			rl, ok := hx.ParseRecordLayout(s.data[base : base+c.LocalLen])
			if !ok || len(rl.SerialTypes) != 5 {
				continue
			}
			// body offsets
			offs := make([]int, 5)
			lens := make([]int, 5)
			cur := rl.BodyOff
			for i, st := range rl.SerialTypes {
				offs[i] = cur
				lens[i] = serialLen(st)
				cur += lens[i]
			}
			switch kind {
			case "master-rootpage":
				if lens[3] == 0 || offs[3]+lens[3] > c.LocalLen {
					continue
				}
				targets := []int{0, 1, npages, npages + 1, 2, 1 + rng.Intn(npages), s.pages[rng.Intn(len(s.pages))].No, 255, 65535}
				t := targets[rng.Intn(len(targets))]
				b := make([]byte, lens[3])
				for i := lens[3] - 1; i >= 0; i-- {
					b[i] = byte(t)
					t >>= 8
				}
				return []patch{{base + offs[3], hex.EncodeToString(b)}}, -1, "master-rootpage"
			case "master-type":
				if lens[0] != 5 || offs[0]+5 > c.LocalLen {
					continue
				}
				vals := []string{"index", "table", "view ", "xxxxx", "TABLE"}
				return []patch{{base + offs[0], hex.EncodeToString([]byte(vals[rng.Intn(len(vals))]))}}, -1, "master-type"
			default:
				n := lens[4]
				if offs[4]+n > c.LocalLen {
					n = c.LocalLen - offs[4]
				}
				if n <= 4 {
					continue
				}
				var b []byte
				switch rng.Intn(6) {
				case 0: // quotes
					b = []byte(strings.Repeat("'", n))
				case 1: // token soup
					toks := []string{"CREATE", "TABLE", "INDEX", "(", ")", ",", "PRIMARY", "KEY", "x", "'", "\"", "[", "0x", "1e", ".", "-", "WITHOUT", "ROWID", "UNIQUE", "ON", "COLLATE", "DEFAULT", "é", "\x00"}
					for len(b) < n {
						b = append(b, []byte(toks[rng.Intn(len(toks))]+" ")...)
					}
					b = b[:n]
				case 2: // truncate the statement: blank the tail
					b = append([]byte{}, s.data[base+offs[4]:base+offs[4]+n]...)
					for i := rng.Intn(n); i < n; i++ {
						b[i] = ' '
					}
				case 3: // random bytes
					b = make([]byte, n)
					rng.Read(b)
				case 4: // flip a few characters
					b = append([]byte{}, s.data[base+offs[4]:base+offs[4]+n]...)
					for k := 0; k < 3; k++ {
						const chars = "(),'\"[]`;x0 \x00\xff"
						b[rng.Intn(n)] = chars[rng.Intn(len(chars))]
					}
				default: // definitions the parser accepts but which do not fit the file (or each other)
					defs := []string{
						"CREATE TABLE zz(a INTEGER PRIMARY KEY, b, c, d, e, f, g, UNIQUE(b,c), PRIMARY KEY(d)) WITHOUT ROWID",
						"CREATE TABLE zz(a, PRIMARY KEY(b))",
						"CREATE TABLE zz(a, PRIMARY KEY(b)) WITHOUT ROWID",
						"CREATE TABLE zz(a, b, PRIMARY KEY(a, nosuch, b)) WITHOUT ROWID",
						"CREATE TABLE zz(a, a, b PRIMARY KEY) WITHOUT ROWID",
						"CREATE TABLE zz(a, PRIMARY KEY(a+1))",
						"CREATE TABLE zz(a, PRIMARY KEY(a+1)) WITHOUT ROWID",
						"CREATE TABLE zz(a, UNIQUE(q), UNIQUE(a, q))",
						"CREATE TABLE zz(a COLLATE mycoll PRIMARY KEY, b) WITHOUT ROWID",
						"CREATE TABLE zz(a TEXT COLLATE mycoll UNIQUE, b, PRIMARY KEY(b COLLATE other))",
						"CREATE TABLE zz(a INTEGER, PRIMARY KEY(a, a, a)) WITHOUT ROWID",
						"CREATE TABLE zz()",
						"CREATE TABLE zz(a, b, c, d, e, f, g, h, i, j, k, l, m, n, o, p PRIMARY KEY) WITHOUT ROWID",
						"CREATE INDEX zi ON zz(nosuch)",
						"CREATE INDEX zi ON zz(a COLLATE mycoll, nosuch DESC)",
						"CREATE INDEX zi ON zz(a+1, lower(b))",
						"CREATE UNIQUE INDEX zi ON zz(a) WHERE",
						"SELECT * FROM zz",
						// names that are the same only under a folding the reader does not use everywhere
						"CREATE TABLE zz(\"é\", b, PRIMARY KEY(\"É\"))",
						"CREATE TABLE zz(é, b, PRIMARY KEY(É)) WITHOUT ROWID",
						"CREATE TABLE zz(k, b, PRIMARY KEY(\u212a)) WITHOUT ROWID",
						"CREATE TABLE zz(s, UNIQUE(\u017f), PRIMARY KEY(S))",
						"CREATE TABLE zz(a, b, UNIQUE(A, B), PRIMARY KEY(\u0131))",
						"CREATE INDEX zi ON zz(\u212a, É)",
					}
					def := []byte(defs[rng.Intn(len(defs))])
					b = make([]byte, n)
					for i := range b {
						b[i] = ' '
					}
					copy(b, def)
				}
				return []patch{{base + offs[4], hex.EncodeToString(b)}}, -1, "master-sql"
			}
		case "header":
			off := rng.Intn(100)
			val := []byte{byte(rng.Intn(256))}
			if rng.Intn(3) == 0 {
				off = 16
				val = [][]byte{{0, 1}, {0, 0}, {2, 0}, {4, 0}, {0x10, 0}, {0x80, 0}, {0xff, 0xff}, {0, 2}, {1, 0}}[rng.Intn(9)]
			}
			return []patch{{off, hex.EncodeToString(val)}}, -1, "header-field"
		case "truncate":
			n := rng.Intn(npages + 1)
			t := n * s.ps
			if rng.Intn(2) == 0 {
				t += rng.Intn(s.ps)
			}
			if t > len(s.data) {
				t = len(s.data)
			}
			if rng.Intn(10) == 0 {
				t = rng.Intn(120)
			}
			return nil, t, "truncation"
		case "flip":
			var ps []patch
			for k := 0; k < 1+rng.Intn(8); k++ {
				ps = append(ps, patch{rng.Intn(len(s.data)), hex.EncodeToString([]byte{byte(rng.Intn(256))})})
			}
			return ps, -1, "random-bytes"
		case "free-bytes":
			// scribble on a page header region
			p := pick()
			b := make([]byte, 1+rng.Intn(12))
			rng.Read(b)
			return []patch{{pageOff(p) + p.HdrOff + rng.Intn(12), hex.EncodeToString(b)}}, -1, "page-header-bytes"
		}
	}
	return []patch{{rng.Intn(len(s.data)), "ff"}}, -1, "random-bytes"
}

func rootOf(pages []*hx.WPage, p *hx.WPage) int {
	byNo := map[int]*hx.WPage{}
	for _, q := range pages {
		byNo[q.No] = q
	}
	cur := p
	for i := 0; i < 40 && cur.Parent != 0; i++ {
		nx, ok := byNo[cur.Parent]
		if !ok {
			break
		}
		cur = nx
	}
	return cur.No
}

func serialLen(st int64) int {
	switch {
	case st >= 0 && st <= 4:
		return int(st)
	case st == 5:
		return 6
	case st == 6, st == 7:
		return 8
	case st >= 8 && st <= 11:
		return 0
	case st >= 12:
		return int((st - 12) / 2)
	}
	return 0
}

func hostileJournal(rng *rand.Rand, ps int) string {
	magic := []byte{0xd9, 0xd5, 0x05, 0xf9, 0x20, 0xa1, 0x63, 0xd7}
	switch rng.Intn(8) {
	case 0:
		return "absent"
	case 1:
		return ""
	case 2:
		b := make([]byte, rng.Intn(3000))
		rng.Read(b)
		return hex.EncodeToString(b)
	default:
		hdr := make([]byte, 28)
		copy(hdr, magic)
		binary.BigEndian.PutUint32(hdr[8:], uint32(rng.Intn(5))-1)
		binary.BigEndian.PutUint32(hdr[12:], rng.Uint32())
		binary.BigEndian.PutUint32(hdr[16:], uint32(rng.Intn(100)))
		sect := []uint32{512, 0, 1, 511, 513, 4096, 65536, 65537, 1 << 31, 0xffffffff, 28, 27}[rng.Intn(12)]
		binary.BigEndian.PutUint32(hdr[20:], sect)
		binary.BigEndian.PutUint32(hdr[24:], uint32(ps))
		tail := make([]byte, []int{0, 1, 483, 484, 485, 4068, 5000}[rng.Intn(7)])
		return hex.EncodeToString(append(hdr, tail...))
	}
}

// ---- parent ----

type c05Proc struct {
	cmd    *exec.Cmd
	in     io.WriteCloser
	out    *bufio.Reader
	errBuf *tailBuffer
	dir    string
}

type tailBuffer struct {
	mu  sync.Mutex
	buf []byte
}

func (t *tailBuffer) Write(p []byte) (int, error) {
	t.mu.Lock()
	t.buf = append(t.buf, p...)
	if len(t.buf) > 1<<20 {
		t.buf = t.buf[len(t.buf)-(1<<19):]
	}
	t.mu.Unlock()
	return len(p), nil
}
func (t *tailBuffer) String() string { t.mu.Lock(); defer t.mu.Unlock(); return string(t.buf) }

func startC05Worker(dir string, id int) (*c05Proc, error) {
	exe := os.Getenv("VERIF_VRUN")
	if exe == "" {
		var err error
		exe, err = os.Executable()
		if err != nil {
			return nil, err
		}
	}
	// second pass of the design: every 4th worker is the -race build (race detector + checkptr)
	if r := os.Getenv("VERIF_VRUN_RACE"); r != "" && id%4 == 3 && id < 90 {
		exe = r
	}
	wdir := filepath.Join(dir, fmt.Sprintf("w%d", id))
	os.MkdirAll(wdir, 0o755)
	cmd := exec.Command(exe, "worker", "c05", wdir)
	cmd.Env = append(os.Environ(), "GOTRACEBACK=all", "GOMEMLIMIT=3GiB")
	in, _ := cmd.StdinPipe()
	outp, _ := cmd.StdoutPipe()
	tb := &tailBuffer{}
	cmd.Stderr = tb
	if err := cmd.Start(); err != nil {
		return nil, err
	}
	return &c05Proc{cmd: cmd, in: in, out: bufio.NewReaderSize(outp, 1<<20), errBuf: tb, dir: wdir}, nil
}

// send runs one case; status: "ok", "died", "timeout".
func (w *c05Proc) send(c *c05Case, timeout time.Duration) (*c05Reply, string) {
	b, _ := json.Marshal(c)
	if _, err := w.in.Write(append(b, '\n')); err != nil {
		return nil, "died"
	}
	type res struct {
		line []byte
		err  error
	}
	ch := make(chan res, 1)
	go func() {
		line, err := w.out.ReadBytes('\n')
		ch <- res{line, err}
	}()
	select {
	case r := <-ch:
		if r.err != nil {
			w.cmd.Wait()
			return nil, "died"
		}
		var rep c05Reply
		if err := json.Unmarshal(r.line, &rep); err != nil {
			return nil, "died"
		}
		return &rep, "ok"
	case <-time.After(timeout):
		w.cmd.Process.Signal(sigQuit())
		select {
		case <-ch:
		case <-time.After(10 * time.Second):
			w.cmd.Process.Kill()
		}
		w.cmd.Wait()
		return nil, "timeout"
	}
}

func (w *c05Proc) stop() {
	w.in.Close()
	done := make(chan struct{})
	go func() { w.cmd.Wait(); close(done) }()
	select {
	case <-done:
	case <-time.After(5 * time.Second):
		w.cmd.Process.Kill()
	}
}

func saveC05Replay(run *hx.Run, s *seedInfo, c *c05Case) string {
	img := applyCase(s.data, c)
	dir := run.ReplayDir()
	name := fmt.Sprintf("case-%s-%d.sqlite", strings.ReplaceAll(s.name, "/", "_"), c.ID)
	p := filepath.Join(dir, name)
	os.WriteFile(p, img, 0o644)
	return p
}

func C05(run *hx.Run) {
	run.Rule = "seed images (small generated databases at 512/1024/4096-byte pages with every page kind, overflow chains, WITHOUT ROWID, indexes; /repo/corpus; /repo/testdata/*.sqlite) x 1-3 structure-aware mutations located by the page walker (child / right-most / overflow pointers incl. self, parent, cyclic, out of range; cell count; cell pointers; payload-length, rowid, header-size and serial-type varints incl. 9-byte negative and overlong; page type; sqlite_master rootpage/type/SQL text; header fields; truncation; random bytes) -> a child worker runs EVERY public operation (low-level, high-level, Row.Scan*, on a subset also the mmap file pager with hostile journals and database/sql) with logical budgets (page reads, callback invocations); refuted by a recovered panic, a fatal worker death, a budget overrun, a heap limit, or a case that does not finish alone within the watchdog. distinct = distinct (seed, mutation patches) images on which the reader got past Open; non-trivial = images where at least one operation still delivered rows or a structural error was reached"
	run.Assumptions = append(stdAssumptions, "a clean run is not memory safety: it is 'no panic / budget overrun on these images'", "CPU-only spins are only visible to the wall-clock watchdog (60 s per case, normal cost milliseconds); a timeout that does not reproduce alone is inconclusive")
	dir, cleanup := hx.ScratchDir("C05")
	defer cleanup()
	o := mustOracle(run)
	if o == nil {
		return
	}
	// seeds
	var seeds []*seedInfo
	genProfiles := []hx.M{
		{"page_size": 512, "rows": 60, "big_density": 0.1, "big_extra": []int{2000, 5000}},
		{"page_size": 1024, "rows": 100, "frag": true, "big_density": 0.1, "big_extra": []int{9000}},
		{"page_size": 512, "rows": 500, "features": []string{"plain", "alias", "wr"}},
		{"page_size": 512, "rows": 4000, "features": []string{"alias", "wr"}}, // three-level trees: several interior pages per tree
		{"page_size": 4096, "rows": 120, "big_density": 0.05, "big_extra": []int{20000}},
		{"page_size": 1024, "rows": 200, "features": []string{"customcoll", "wr", "misc"}}, // valid file with an application-defined collation
	}
	for i, pr := range genProfiles {
		d, err := hx.BuildDB(o, dir, fmt.Sprintf("seed%d", i), pr, run.Seed*17+int64(i))
		if err != nil {
			run.Inconclusive("seed generation failed: " + err.Error())
			continue
		}
		data, _ := os.ReadFile(d.Path)
		si := &seedInfo{path: d.Path, data: data, ps: d.PageSize(), name: fmt.Sprintf("gen%d-ps%d", i, d.PageSize())}
		roots := []int{1}
		for _, t := range d.Meta.Tables {
			roots = append(roots, t.Root)
			si.hints = append(si.hints, t.Name)
			for _, ix := range t.Indexes {
				roots = append(roots, ix.Root)
			}
		}
		for _, r := range roots {
			pg, err := hx.WalkTree(data, si.ps, r)
			if err == nil {
				si.pages = append(si.pages, pg...)
			}
		}
		if len(si.pages) > 0 {
			seeds = append(seeds, si)
		}
	}
	o.Close()
	extra, _ := filepath.Glob("/repo/testdata/*.sqlite")
	more, _ := filepath.Glob("/repo/corpus/*")
	extra = append(extra, more...)
	sort.Strings(extra)
	for _, f := range extra {
		data, err := os.ReadFile(f)
		if err != nil || len(data) < 512 || len(data) > 300000 {
			continue
		}
		ps := hx.PageSizeOf(data)
		if ps < 512 || ps > 65536 || ps&(ps-1) != 0 || len(data)%ps != 0 {
			continue
		}
		si := &seedInfo{path: f, data: data, ps: ps, name: filepath.Base(f)}
		// walk every page that parses as a b-tree page
		for no := 1; no <= len(data)/ps; no++ {
			if p, err := hx.ParsePage(data, ps, no); err == nil {
				si.pages = append(si.pages, p)
			}
		}
		si.hints = []string{"words", "t", "hello", "foo", "numbers", "artists", "albums", "Album", "customers"}
		if len(si.pages) > 0 {
			seeds = append(seeds, si)
		}
	}
	// hostile by construction: layered DAGs (py/lattice.py); they come first in the case list, lightly mutated
	nLattice := 0
	if out, err := exec.Command("python3", filepath.Join(hx.VerifDir(), "py", "lattice.py"), dir).CombinedOutput(); err != nil {
		run.Inconclusive("lattice seeds: " + clip(string(out), 300))
	} else {
		lat, _ := filepath.Glob(filepath.Join(dir, "lattice-*.sqlite"))
		sort.Strings(lat)
		var ls []*seedInfo
		for _, f := range lat {
			data, err := os.ReadFile(f)
			if err != nil {
				continue
			}
			si := &seedInfo{path: f, data: data, ps: 512, name: filepath.Base(f), hints: []string{"t", "ti"}}
			for no := 1; no <= len(data)/512; no++ {
				if p, err := hx.ParsePage(data, 512, no); err == nil {
					si.pages = append(si.pages, p)
				}
			}
			if len(si.pages) > 0 {
				ls = append(ls, si)
			}
		}
		nLattice = len(ls)
		seeds = append(ls, seeds...) // in front: the generated-seed index arithmetic below is shifted by nLattice
	}
	if len(seeds) < 3 {
		run.Inconclusive("too few seed images")
		return
	}
	run.SetExtra("seed_images", len(seeds))

	nCases := 6000
	if run.Thorough() {
		nCases = 150000
	}
	if v := os.Getenv("VERIF_C05_CASES"); v != "" {
		fmt.Sscan(v, &nCases)
	}
	type pending struct {
		c *c05Case
		s *seedInfo
	}
	cases := make(chan pending, 256)
	var suspects []pending
	var smu sync.Mutex
	go func() {
		rng := newRng(run, 5)
		for i := 0; i < nCases; i++ {
			s := seeds[rng.Intn(len(seeds))]
			if i%3 != 0 { // generated seeds get most of the budget
				s = seeds[(nLattice+rng.Intn(len(genProfiles)))%len(seeds)]
			}
			c := &c05Case{ID: i, Seed: s.path, Trunc: -1, Hints: s.hints}
			nm := 1 + rng.Intn(3)
			if nLattice > 0 && i < 12*nLattice {
				// the lattices themselves, with one light mutation on top (a random byte mostly lands in unused space)
				s = seeds[i%nLattice]
				c = &c05Case{ID: i, Seed: s.path, Trunc: -1, Hints: s.hints}
				nm = 1
			}
			for m := 0; m < nm; m++ {
				ps, tr, kind := s.mutate(rng)
				c.Patches = append(c.Patches, ps...)
				if tr >= 0 {
					c.Trunc = tr
				}
				c.Kinds = append(c.Kinds, kind)
			}
			if i%4 == 0 {
				c.File = true
				c.Journal = hostileJournal(rng, s.ps)
			}
			cases <- pending{c, s}
		}
		close(cases)
	}()
	handleReply := func(pd pending, rep *c05Reply) {
		run.Eval(1)
		for _, k := range pd.c.Kinds {
			run.See("mutation_kind", k)
		}
		if rep.OpenErr != "" {
			run.See("outcome", "refused-at-open")
		} else {
			if rep.Rows > 0 {
				run.See("outcome", "rows-still-delivered")
				run.Count("images_with_rows_after_mutation", 1)
			} else {
				run.See("outcome", "opened-no-rows")
			}
			run.Distinct(fmt.Sprintf("%s/%v/%d", pd.s.name, pd.c.Patches, pd.c.Trunc))
		}
		run.Count("operations_run", rep.Ops)
		for _, e := range rep.Errors {
			run.See("error_values", e)
		}
		if pd.c.File {
			run.Count("file_pager_and_driver_cases", 1)
		}
		for _, f := range rep.Findings {
			key := fmt.Sprintf("C05/%s/%s", f.Kind, f.Site)
			img := ""
			if run.NViolations() < 40 {
				img = saveC05Replay(run, pd.s, pd.c)
			}
			run.Violation(key, fmt.Sprintf("%s in %s on seed %s mutated by %v: %s", f.Kind, f.Op, pd.s.name, pd.c.Kinds, firstLines(f.Msg, 3)),
				hx.M{"case": pd.c, "image": img, "finding": f})
		}
		if pd.c.ID%1500 == 0 {
			run.Sample(hx.M{"seed": pd.s.name, "mutations": pd.c.Kinds, "patches": pd.c.Patches, "trunc": pd.c.Trunc, "journal": len(pd.c.Journal), "ops_run": rep.Ops, "rows_delivered": rep.Rows, "open_err": rep.OpenErr})
		}
	}
	var wg sync.WaitGroup
	for wi := 0; wi < nWorkers(); wi++ {
		wg.Add(1)
		go func(wi int) {
			defer wg.Done()
			w, err := startC05Worker(dir, wi)
			if err != nil {
				run.Inconclusive("cannot start worker: " + err.Error())
				return
			}
			for pd := range cases {
				smu.Lock()
				tooMany := len(suspects) >= 6
				smu.Unlock()
				if tooMany {
					// enough suspected hangs to confirm; do not burn the remaining budget on watchdog timeouts
					run.Count("cases_skipped_after_repeated_timeouts", 1)
					continue
				}
				rep, st := w.send(pd.c, 60*time.Second)
				switch st {
				case "ok":
					handleReply(pd, rep)
					if os.Getenv("VERIF_VRUN_RACE") != "" && wi%4 == 3 {
						run.Count("cases_run_under_race_detector_and_checkptr", 1)
					}
				case "died":
					stderr := w.errBuf.String()
					site := panicSite(stderr)
					first := firstLines(stderr, 2)
					kind := "fatal"
					if strings.Contains(stderr, "VERIF-HEAP-LIMIT") {
						kind = "unbounded-allocation"
					}
					img := saveC05Replay(run, pd.s, pd.c)
					run.Eval(1)
					run.Violation(fmt.Sprintf("C05/%s/%s", kind, site), fmt.Sprintf("worker process died on seed %s mutated by %v: %s", pd.s.name, pd.c.Kinds, first),
						hx.M{"case": pd.c, "image": img, "stderr_tail": lastBytes(stderr, 6000)})
					w, err = startC05Worker(dir, wi)
					if err != nil {
						run.Inconclusive("cannot restart worker: " + err.Error())
						return
					}
				case "timeout":
					smu.Lock()
					suspects = append(suspects, pd)
					smu.Unlock()
					w, err = startC05Worker(dir, wi)
					if err != nil {
						run.Inconclusive("cannot restart worker: " + err.Error())
						return
					}
				}
			}
			w.stop()
		}(wi)
	}
	wg.Wait()
	// suspected hangs: re-run each alone
	for si, pd := range suspects {
		if si >= 3 {
			run.Count("suspected_hangs_not_reconfirmed", 1)
			continue
		}
		w, err := startC05Worker(dir, 99)
		if err != nil {
			run.Inconclusive("cannot start worker for hang confirmation")
			break
		}
		rep, st := w.send(pd.c, 60*time.Second)
		switch st {
		case "ok":
			run.Count("timeouts_not_reproduced_alone", 1)
			handleReply(pd, rep)
			w.stop()
		default:
			stderr := w.errBuf.String()
			img := saveC05Replay(run, pd.s, pd.c)
			run.Eval(1)
			run.Violation("C05/hang/"+panicSite(stderr), fmt.Sprintf("case did not finish alone within 60 s (normal cost: milliseconds) on seed %s mutated by %v", pd.s.name, pd.c.Kinds),
				hx.M{"case": pd.c, "image": img, "goroutine_dump_tail": lastBytes(stderr, 8000)})
		}
	}
	if run.Seen("outcome", "rows-still-delivered") == 0 {
		run.Inconclusive("no mutated image got past open with rows: mutations too destructive to exercise the readers")
	}
}

func firstLines(s string, n int) string {
	lines := strings.SplitN(s, "\n", n+1)
	if len(lines) > n {
		lines = lines[:n]
	}
	return strings.Join(lines, " | ")
}

func lastBytes(s string, n int) string {
	if len(s) > n {
		return s[len(s)-n:]
	}
	return s
}
