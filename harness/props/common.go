//go:build verif

package props

import (
	"fmt"
	"os"
	"runtime"
	"strings"
	"sync"

	"github.com/alicebob/sqlittle"
	sdb "github.com/alicebob/sqlittle/db"

	"verifharness/hx"
)

// worker is one shard of a corpus run: its own oracle process and scratch dir.
type worker struct {
	id  int
	o   *hx.Oracle
	dir string
}

func nWorkers() int {
	n := runtime.NumCPU()
	if n > 16 {
		n = 16
	}
	if n < 2 {
		n = 2
	}
	return n
}

// forEachProfile builds every profile's database (in parallel shards) and calls fn.
func forEachProfile(run *hx.Run, profiles []hx.M, fn func(w *worker, d *hx.DB, idx int)) {
	dir, cleanup := hx.ScratchDir(run.Prop)
	defer cleanup()
	nw := nWorkers()
	if nw > len(profiles) {
		nw = len(profiles)
	}
	jobs := make(chan int, len(profiles))
	for i := range profiles {
		jobs <- i
	}
	close(jobs)
	var wg sync.WaitGroup
	for wi := 0; wi < nw; wi++ {
		wg.Add(1)
		go func(wi int) {
			defer wg.Done()
			o, err := hx.StartOracle()
			if err != nil {
				run.Inconclusive("cannot start the SQLite oracle process: " + err.Error())
				return
			}
			defer o.Close()
			w := &worker{id: wi, o: o, dir: dir}
			for i := range jobs {
				name := hx.ProfileName(i, profiles[i])
				d, err := hx.BuildDB(o, dir, name, profiles[i], run.Seed*7919+int64(i))
				if err != nil {
					run.Inconclusive("corpus generation failed: " + err.Error())
					continue
				}
				run.See("page_size", fmt.Sprint(d.PageSize()))
				for obj, st := range d.Stat {
					kind := "table"
					if strings.HasPrefix(obj, "ix_") || strings.HasPrefix(obj, "sqlite_autoindex") || strings.HasPrefix(obj, "Ix") {
						kind = "index"
					}
					run.See(kind+"_tree_depth", fmt.Sprint(st.Depth))
					if st.Overflow > 0 {
						run.See("objects_with_overflow_pages", kind)
					}
				}
				func() {
					defer func() {
						if r := recover(); r != nil {
							run.Inconclusive(fmt.Sprintf("harness panic on %s: %v", name, r))
						}
					}()
					fn(w, d, i)
				}()
				os.Remove(d.Path)
			}
		}(wi)
	}
	wg.Wait()
}

// retained watches rows a caller keeps WITHOUT copying: the documentation says
// row values stay valid during the transaction, so a row delivered earlier must
// still be intact when later rows are delivered (an implementation that decodes
// into a reused buffer would change it).
type retained struct {
	raw   []sqlittle.Row
	clone []hx.Row
	bad   string
}

func (k *retained) add(r sqlittle.Row, c hx.Row) {
	// check the previous few rows each time, and keep a bounded window
	for i := len(k.raw) - 1; i >= 0 && i >= len(k.raw)-3; i-- {
		if k.bad == "" && !hx.RowEqualStrict(hx.Row(k.raw[i]), k.clone[i]) {
			k.bad = fmt.Sprintf("a row delivered earlier in the same call changed after later rows were read: was %s, now %s", hx.RowString(k.clone[i]), hx.RowString(k.raw[i]))
		}
	}
	if len(k.raw) > 64 {
		k.raw, k.clone = k.raw[32:], k.clone[32:]
	}
	k.raw = append(k.raw, r)
	k.clone = append(k.clone, c)
}

// collectSelect runs DB.Select and returns cloned rows.
func collectSelect(db *sqlittle.DB, table string, cols []string) (rows []hx.Row, err error, panicMsg string) {
	var keep retained
	p, msg := safely(func() {
		err = db.Select(table, func(r sqlittle.Row) {
			c := hx.CloneRow(r)
			keep.add(r, c)
			rows = append(rows, c)
		}, cols...)
	})
	if p {
		panicMsg = msg
	}
	if keep.bad != "" && panicMsg == "" {
		panicMsg = "RETAINED-ROW-CHANGED: " + keep.bad
	}
	return
}

func collectIndexed(db *sqlittle.DB, table, index string, cols []string) (rows []hx.Row, err error, panicMsg string) {
	var keep retained
	p, msg := safely(func() {
		err = db.IndexedSelect(table, index, func(r sqlittle.Row) {
			c := hx.CloneRow(r)
			keep.add(r, c)
			rows = append(rows, c)
		}, cols...)
	})
	if p {
		panicMsg = msg
	}
	if keep.bad != "" && panicMsg == "" {
		panicMsg = "RETAINED-ROW-CHANGED: " + keep.bad
	}
	return
}

func collectIndexedEq(db *sqlittle.DB, table, index string, key sqlittle.Key, cols []string) (rows []hx.Row, err error, panicMsg string) {
	var keep retained
	p, msg := safely(func() {
		err = db.IndexedSelectEq(table, index, key, func(r sqlittle.Row) {
			c := hx.CloneRow(r)
			keep.add(r, c)
			rows = append(rows, c)
		}, cols...)
	})
	if p {
		panicMsg = msg
	}
	if keep.bad != "" && panicMsg == "" {
		panicMsg = "RETAINED-ROW-CHANGED: " + keep.bad
	}
	return
}

func collectPK(db *sqlittle.DB, table string, key sqlittle.Key, cols []string) (rows []hx.Row, err error, panicMsg string) {
	var keep retained
	p, msg := safely(func() {
		err = db.PKSelect(table, key, func(r sqlittle.Row) {
			c := hx.CloneRow(r)
			keep.add(r, c)
			rows = append(rows, c)
		}, cols...)
	})
	if p {
		panicMsg = msg
	}
	if keep.bad != "" && panicMsg == "" {
		panicMsg = "RETAINED-ROW-CHANGED: " + keep.bad
	}
	return
}

func recordToRow(r sdb.Record) hx.Row { return hx.CloneRow([]hx.Value(r)) }

// selectList builds "c1, c2" quoted.
func selectList(cols []string) string {
	q := make([]string, len(cols))
	for i, c := range cols {
		q[i] = hx.QuoteIdent(c)
	}
	return strings.Join(q, ", ")
}

// diffRows returns "" if got equals want under the documented normalisation,
// otherwise a description of the first difference.
func diffRows(want, got []hx.Row) string {
	n := len(want)
	if len(got) < n {
		n = len(got)
	}
	for i := 0; i < n; i++ {
		if !hx.RowEqualDoc(want[i], got[i]) {
			return fmt.Sprintf("row %d differs: SQLite %s, sqlittle %s", i, hx.RowString(want[i]), hx.RowString(got[i]))
		}
	}
	if len(want) != len(got) {
		extra := ""
		if len(got) > n {
			extra = " first extra: " + hx.RowString(got[n])
		} else {
			extra = " first missing: " + hx.RowString(want[n])
		}
		return fmt.Sprintf("row count differs: SQLite %d, sqlittle %d;%s", len(want), len(got), extra)
	}
	return ""
}

// diffKind classifies a row-sequence difference for violation keys.
func diffKind(want, got []hx.Row) string {
	if len(want) != len(got) {
		if len(got) < len(want) {
			return "missing-rows"
		}
		return "extra-rows"
	}
	// same multiset?
	m := map[string]int{}
	for _, r := range want {
		m[hx.RowKey(r)]++
	}
	same := true
	for _, r := range got {
		k := hx.RowKey(r)
		if m[k] == 0 {
			same = false
			break
		}
		m[k]--
	}
	if same {
		return "order"
	}
	return "values"
}

func tableKind(t *hx.TableInfo) string {
	if t.WR != 0 {
		return "without-rowid"
	}
	if t.RowidAlias != nil {
		return "rowid-alias"
	}
	return "rowid"
}

// pmKind names the kind of abnormal outcome carried in a collector's panic message.
func pmKind(pm string) string {
	if strings.HasPrefix(pm, "RETAINED-ROW-CHANGED") {
		return "retained-row-changed"
	}
	return "panic"
}
