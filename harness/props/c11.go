//go:build verif

package props

import (
	"encoding/json"
	"fmt"
	"math"
	"math/rand"
	"strings"
	"sync"

	sdb "github.com/alicebob/sqlittle/db"

	"verifharness/hx"
)

func init() { register("C11", "exploration", C11) }

var collations = []string{"binary", "nocase", "rtrim"}

type rankSet struct {
	vals  []hx.Value
	ranks map[string][]int
}

// sqliteRanks asks SQLite for dense ranks of vals under each collation and
// drops values SQLite did not store verbatim.
func sqliteRanks(o *hx.Oracle, vals []hx.Value) (*rankSet, int, error) {
	var rep struct {
		Ranks  map[string][]int  `json:"ranks"`
		Stored []json.RawMessage `json:"stored"`
	}
	if err := o.Call(hx.M{"op": "rank", "values": hx.EncodeRow(vals), "collations": collations}, &rep); err != nil {
		return nil, 0, err
	}
	rs := &rankSet{ranks: map[string][]int{}}
	dropped := 0
	keep := make([]bool, len(vals))
	for i, raw := range rep.Stored {
		v, err := hx.DecodeValue(raw)
		if err != nil {
			return nil, 0, err
		}
		keep[i] = hx.ValueEqualStrict(v, vals[i])
		if !keep[i] {
			dropped++
		}
	}
	for i, v := range vals {
		if keep[i] {
			rs.vals = append(rs.vals, v)
		}
	}
	for _, c := range collations {
		for i := range vals {
			if keep[i] {
				rs.ranks[c] = append(rs.ranks[c], rep.Ranks[c][i])
			}
		}
	}
	return rs, dropped, nil
}

func cmpDetail(a, b hx.Value) string {
	ca, cb := hx.Class(a), hx.Class(b)
	big := func(v hx.Value) bool {
		switch x := v.(type) {
		case int64:
			return x > 1<<53 || x < -(1<<53)
		case float64:
			return math.Abs(x) > 1<<53
		}
		return false
	}
	if (ca == "int" && cb == "real") || (ca == "real" && cb == "int") {
		if big(a) || big(b) {
			return "beyond-2^53"
		}
		return "within-2^53"
	}
	if ca == "text" && cb == "text" {
		sa, sb := a.(string), b.(string)
		var f []string
		if strings.ContainsRune(sa, 0) || strings.ContainsRune(sb, 0) {
			f = append(f, "embedded-nul")
		}
		tw := func(s string) bool {
			return strings.HasSuffix(s, "\t") || strings.HasSuffix(s, "\n") || strings.HasSuffix(s, "\r") ||
				strings.TrimRight(s, " ") != strings.TrimRight(s, " \t\r\n")
		}
		if tw(sa) || tw(sb) {
			f = append(f, "trailing-nonspace-ws")
		}
		na := func(s string) bool {
			for i := 0; i < len(s); i++ {
				if s[i] >= 0x80 {
					return true
				}
			}
			return false
		}
		if na(sa) || na(sb) {
			f = append(f, "non-ascii")
		}
		if len(f) == 0 {
			return "plain"
		}
		return strings.Join(f, "+")
	}
	return "-"
}

func C11(run *hx.Run) {
	run.Rule = "every ordered pair (a,b) of the value grid x {binary,nocase,rtrim} x {ASC,DESC}: db.Equals and db.Search on one-column keys vs SQLite's dense_rank() OVER (ORDER BY v COLLATE c); plus PRNG-chosen multi-column keys (1..3 key columns vs 3-column records, mixed collation/DESC flags) vs the lexicographic composition of ranks. distinct = distinct (a,b,collation,direction) tuples; non-trivial = every pair (each exercises a storage-class or collation decision)"
	run.Assumptions = append(stdAssumptions, "NaN is excluded (SQLite stores NaN as NULL)", "only valid UTF-8 text")
	rounds, extend, trials := 4, 300, 200000
	if run.Thorough() {
		// independent rounds, each with its own PRNG-extended grid (extensions compound: second-generation
		// neighbours of neighbours) and its own SQLite ranking
		rounds, extend, trials = 96, 2500, 2000000
	}
	run.Exhaustive = true
	var wg sync.WaitGroup
	sem := make(chan struct{}, nWorkers())
	var gridTotal, droppedTotal, tuplesTotal int64
	var tmu sync.Mutex
	for r := 0; r < rounds; r++ {
		wg.Add(1)
		go func(r int) {
			defer wg.Done()
			sem <- struct{}{}
			defer func() { <-sem }()
			o := mustOracle(run)
			if o == nil {
				return
			}
			defer o.Close()
			rng := newRng(run, 11+int64(r)*7919)
			grid := hx.Grid()
			grid = hx.ExtendGrid(grid, rng, extend)
			if r%2 == 1 {
				grid = hx.ExtendGrid(grid, rng, extend/2)
			}
			{
				// de-duplicate so that enumerated tuples are distinct by construction
				seen := map[string]bool{}
				var d []hx.Value
				for _, v := range grid {
					if k := hx.ValueKey(v); !seen[k] {
						seen[k] = true
						d = append(d, v)
					}
				}
				grid = d
			}
			n, dropped, tuples := c11Round(run, o, rng, grid, trials, r)
			tmu.Lock()
			gridTotal += int64(n)
			droppedTotal += int64(dropped)
			tuplesTotal += int64(tuples)
			tmu.Unlock()
		}(r)
	}
	wg.Wait()
	run.SetExtra("rounds", rounds)
	run.SetExtra("grid_size_total", gridTotal)
	run.SetExtra("grid_values_not_stored_verbatim_by_sqlite", droppedTotal)
	run.SetExtra("single_column_tuples", tuplesTotal)
}

// c11Round checks one value grid: all ordered pairs under every collation and direction, then PRNG multi-column keys.
// Tuples of different rounds overlap only in the fixed base grid; the distinct count therefore counts the base
// grid's tuples once (round 0) and per later round only tuples with at least one extended value.
func c11Round(run *hx.Run, o *hx.Oracle, rng *rand.Rand, grid []hx.Value, trials int, round int) (int, int, int) {
	rs, dropped, err := sqliteRanks(o, grid)
	if err != nil {
		run.Inconclusive("rank query failed: " + err.Error())
		return 0, 0, 0
	}
	nBase := len(hx.Grid())

	n := len(rs.vals)
	report := func(op, coll string, desc bool, a, b hx.Value, got, want bool, ra, rb int) {
		dir := "asc"
		if desc {
			dir = "desc"
		}
		key := fmt.Sprintf("C11/%s/%s/%s-%s/%s", op, coll, hx.Class(a), hx.Class(b), cmpDetail(a, b))
		run.Violation(key, fmt.Sprintf("%s(key=%s %s %s, rec=%s) = %v, SQLite order says %v (rank key=%d rec=%d)",
			op, hx.ValueString(a), coll, dir, hx.ValueString(b), got, want, ra, rb),
			hx.M{"op": op, "collation": coll, "desc": desc, "key": hx.EncodeValue(a), "rec": hx.EncodeValue(b)})
	}
	evals := 0
	classPairs := map[string]int64{}
	for _, coll := range collations {
		ranks := rs.ranks[coll]
		for i := 0; i < n; i++ {
			a := rs.vals[i]
			for j := 0; j < n; j++ {
				b := rs.vals[j]
				for _, desc := range []bool{false, true} {
					var eq, se bool
					if p, msg := safely(func() {
						k := sdb.Key{{V: a, Collate: coll, Desc: desc}}
						eq = sdb.Equals(k, sdb.Record{b})
						se = sdb.Search(k, sdb.Record{b})
					}); p {
						run.Violation(fmt.Sprintf("C11/panic/%s/%s-%s", coll, hx.Class(a), hx.Class(b)), "panic comparing "+hx.ValueString(a)+" with "+hx.ValueString(b)+": "+msg, nil)
						continue
					}
					evals += 2
					wantEq := ranks[i] == ranks[j]
					wantSe := ranks[j] >= ranks[i]
					if desc {
						wantSe = ranks[j] <= ranks[i]
					}
					if eq != wantEq {
						report("Equals", coll, desc, a, b, eq, wantEq, ranks[i], ranks[j])
					}
					if se != wantSe {
						report("Search", coll, desc, a, b, se, wantSe, ranks[i], ranks[j])
					}
				}
				classPairs[hx.Class(a)+"-"+hx.Class(b)]++
			}
			run.Eval(evals)
			evals = 0
		}
	}
	for k, c := range classPairs {
		run.SeeN("class_pairs", k, c)
	}
	// distinct: by construction each (i,j,coll,dir) is a distinct tuple
	tuples := n * n * len(collations) * 2
	if round > 0 && n >= nBase {
		tuples -= nBase * nBase * len(collations) * 2 // the base grid's own pairs were counted by round 0
	}
	run.DistinctN(tuples)
	// the default collation ("" in KeyCol) must behave as binary
	for i := 0; i < n; i += 3 {
		for j := 0; j < n; j += 2 {
			a, b := rs.vals[i], rs.vals[j]
			k := sdb.Key{{V: a}}
			run.Eval(1)
			if sdb.Equals(k, sdb.Record{b}) != (rs.ranks["binary"][i] == rs.ranks["binary"][j]) {
				report("Equals", "default", false, a, b, sdb.Equals(k, sdb.Record{b}), !sdb.Equals(k, sdb.Record{b}), rs.ranks["binary"][i], rs.ranks["binary"][j])
			}
		}
	}

	// multi-column keys
	mevals := 0
	klens := map[int]int64{}
	for t := 0; t < trials; t++ {
		klen := 1 + rng.Intn(3)
		rlen := 3
		if rng.Intn(4) == 0 {
			rlen = klen + rng.Intn(2)
		}
		var key sdb.Key
		var rec sdb.Record
		ki := make([]int, klen)
		ri := make([]int, rlen)
		colls := make([]string, klen)
		descs := make([]bool, klen)
		for c := 0; c < rlen; c++ {
			ri[c] = rng.Intn(n)
			rec = append(rec, rs.vals[ri[c]])
		}
		for c := 0; c < klen; c++ {
			// make equal prefixes likely
			if rng.Intn(3) != 0 {
				ki[c] = ri[c]
			} else {
				ki[c] = rng.Intn(n)
			}
			colls[c] = collations[rng.Intn(3)]
			descs[c] = rng.Intn(2) == 0
			kc := sdb.KeyCol{V: rs.vals[ki[c]], Collate: colls[c], Desc: descs[c]}
			if colls[c] == "binary" && rng.Intn(2) == 0 {
				kc.Collate = "" // the default collation, left unnamed as the high-level API does
			}
			key = append(key, kc)
		}
		wantEq, wantSe := true, true
		decided := false
		for c := 0; c < klen; c++ {
			rk, rr := rs.ranks[colls[c]][ki[c]], rs.ranks[colls[c]][ri[c]]
			if rk != rr {
				wantEq = false
				if !decided {
					decided = true
					if descs[c] {
						wantSe = rr < rk
					} else {
						wantSe = rr > rk
					}
				}
			}
		}
		var eq, se bool
		if p, msg := safely(func() { eq = sdb.Equals(key, rec); se = sdb.Search(key, rec) }); p {
			run.Violation("C11/panic/multi", "panic in multi-column compare: "+msg, nil)
			continue
		}
		mevals += 2
		if mevals >= 20000 {
			run.Eval(mevals)
			mevals = 0
		}
		if eq != wantEq || se != wantSe {
			// classify by the first column that decides
			var parts []string
			for c := 0; c < klen; c++ {
				parts = append(parts, fmt.Sprintf("%s %s desc=%v vs %s", hx.ValueString(key[c].V), colls[c], descs[c], hx.ValueString(rec[c])))
			}
			det := "-"
			cls := ""
			for c := 0; c < klen; c++ {
				// find a column whose single-column verdict is already wrong: then this is the same defect
				k1 := sdb.Key{key[c]}
				e1 := sdb.Equals(k1, sdb.Record{rec[c]})
				if e1 != (rs.ranks[colls[c]][ki[c]] == rs.ranks[colls[c]][ri[c]]) {
					det = cmpDetail(key[c].V, rec[c])
					cls = fmt.Sprintf("%s/%s-%s", colls[c], hx.Class(key[c].V), hx.Class(rec[c]))
					break
				}
				s1 := sdb.Search(k1, sdb.Record{rec[c]})
				w1 := rs.ranks[colls[c]][ri[c]] >= rs.ranks[colls[c]][ki[c]]
				if descs[c] {
					w1 = rs.ranks[colls[c]][ri[c]] <= rs.ranks[colls[c]][ki[c]]
				}
				if s1 != w1 {
					det = cmpDetail(key[c].V, rec[c])
					cls = fmt.Sprintf("%s/%s-%s", colls[c], hx.Class(key[c].V), hx.Class(rec[c]))
					break
				}
			}
			key := "C11/multi/composition"
			if cls != "" {
				key = fmt.Sprintf("C11/multi/column/%s/%s", cls, det)
			}
			run.Violation(key, fmt.Sprintf("multi-column: Equals=%v want %v, Search=%v want %v; columns: %s", eq, wantEq, se, wantSe, strings.Join(parts, " ; ")), nil)
		}
		if t < 4 && round < 3 {
			var parts []string
			for c := 0; c < klen; c++ {
				parts = append(parts, fmt.Sprintf("%s/%s/desc=%v", hx.ValueString(key[c].V), colls[c], descs[c]))
			}
			run.Sample(hx.M{"key": parts, "record": hx.RowString(rec), "equals": eq, "search": se})
		}
		klens[klen]++
	}
	run.Eval(mevals)
	for k, c := range klens {
		run.SeeN("multi_key_len", fmt.Sprint(k), c)
	}
	run.Count("multi_column_trials", trials)
	if round == 0 {
		run.Sample(hx.M{"single": "Equals/Search(Key{" + hx.ValueString(rs.vals[5]) + "}, Record{" + hx.ValueString(rs.vals[len(rs.vals)-3]) + "})"})
	}
	return n, dropped, tuples
}
