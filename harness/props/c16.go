//go:build verif

package props

import (
	"fmt"
	"math/rand"
	"os"
	"os/exec"
	"path/filepath"
	"reflect"
	"strings"
	"sync"
	"time"

	"github.com/alicebob/sqlittle/sql"

	"verifharness/hx"
)

func init() { register("C16", "exploration", C16) }

type ddlIndex struct {
	Name   string   `json:"name"`
	Unique bool     `json:"unique"`
	Cols   []string `json:"cols"`
	Where  string   `json:"where"`
}

type ddlTable struct {
	Name    string     `json:"name"`
	Cols    []string   `json:"cols"`
	Tcons   []string   `json:"tcons"`
	Suffix  string     `json:"suffix"`
	Indexes []ddlIndex `json:"indexes"`
}

type ddlVariant struct {
	Edit  string   `json:"edit"`
	Cols  []string `json:"cols"`
	Tcons []string `json:"tcons"`
	SQL   string   `json:"sql"`
	Index string   `json:"index"`
}

type ddlProgram struct {
	Table         ddlTable     `json:"table"`
	SQL           []string     `json:"sql"`
	Variants      []ddlVariant `json:"variants"`
	IndexVariants []ddlVariant `json:"index_variants"`
}

type ddlReply struct {
	Programs  []ddlProgram   `json:"programs"`
	Generated int            `json:"generated"`
	Rejected  int            `json:"rejected_by_sqlite"`
	Meta      []hx.TableInfo `json:"meta"`
}

func ddlPrograms(o *hx.Oracle, seed int64, n int, path string, variants bool) (*ddlReply, error) {
	var rep ddlReply
	req := hx.M{"op": "ddl", "seed": seed, "n": n, "variants": variants}
	if path != "" {
		req["path"] = path
	}
	err := o.Call(req, &rep)
	return &rep, err
}

type parseOut struct {
	res interface{}
	err string
	pm  string
}

func parseOnce(s string) parseOut {
	var out parseOut
	p, pm := safely(func() {
		r, err := sql.Parse(s)
		out.res = r
		if err != nil {
			out.err = err.Error()
		}
	})
	if p {
		out.pm = pm
	}
	return out
}

func sameParse(a, b parseOut) bool {
	return a.err == b.err && a.pm == b.pm && reflect.DeepEqual(a.res, b.res)
}

var sqlKeywords = []string{"ACTION", "AND", "ASC", "AUTOINCREMENT", "CASCADE", "CHECK", "COLLATE", "CONFLICT", "CONSTRAINT", "CREATE", "DEFAULT", "DEFERRABLE",
	"DEFERRED", "DELETE", "DESC", "FOREIGN", "FROM", "GLOB", "INDEX", "IN", "INITIALLY", "IS", "KEY", "LIKE", "MATCH", "NO", "NOT", "NULL", "ON", "OR",
	"PRIMARY", "REFERENCES", "REGEXP", "REPLACE", "RESTRICT", "ROWID", "SELECT", "SET", "TABLE", "UNIQUE", "UPDATE", "WHERE", "WITHOUT",
	"ROLLBACK", "ABORT", "FAIL", "IGNORE", "BETWEEN", "TEMP", "IF", "EXISTS", "VIRTUAL", "AS", "TRUE", "FALSE", "CURRENT_TIME"}

var soupAtoms = []string{"(", ")", ",", "+", "-", "~", "*", ".", ";", "'", "\"", "`", "[", "]", "''", "\"\"", "'a'", "\"b\"", "[c]", "`d`", "0", "1", "-1", "42",
	"0x", "0X1f", "0xFFFFFFFFFFFFFFFF", "0x1FFFFFFFFFFFFFFFF", "1e999", "1e-999", "1e", "1e+", ".5", "5.", "1.2.3", "9223372036854775807", "9223372036854775808",
	"99999999999999999999", "٣", "１２", "é", "É", "中", "\U0001f600", "\x00", "\xff", "\xc3", "a", "t", "x1", "_", "||", ">=", "<=", "==", "!=", "<>", ">>", "<<", "|", "/", "%", "&", "=", "!", ">", "<",
	"\t", "\n", "\r\n", " ", " ", "--", "/*", "*/", "x'00'", "X'", "?", ":a", "@b", "$c", "#", "\\", "{", "}", "^"}

func soup(rng *rand.Rand, n int) string {
	var sb strings.Builder
	for i := 0; i < n; i++ {
		if rng.Intn(2) == 0 {
			k := sqlKeywords[rng.Intn(len(sqlKeywords))]
			if rng.Intn(3) == 0 {
				k = strings.ToLower(k)
			}
			sb.WriteString(k)
		} else {
			sb.WriteString(soupAtoms[rng.Intn(len(soupAtoms))])
		}
		if rng.Intn(4) != 0 {
			sb.WriteByte(' ')
		}
	}
	return sb.String()
}

func mutateString(rng *rand.Rand, s string) string {
	b := []byte(s)
	if len(b) == 0 {
		return soup(rng, 3)
	}
	switch rng.Intn(7) {
	case 0: // truncate
		return string(b[:rng.Intn(len(b))])
	case 1: // delete a span
		i := rng.Intn(len(b))
		j := i + rng.Intn(len(b)-i)
		return string(append(append([]byte{}, b[:i]...), b[j:]...))
	case 2: // insert an atom
		i := rng.Intn(len(b) + 1)
		return string(b[:i]) + soupAtoms[rng.Intn(len(soupAtoms))] + string(b[i:])
	case 3: // flip a byte
		b[rng.Intn(len(b))] = byte(rng.Intn(256))
		return string(b)
	case 4: // duplicate a span
		i := rng.Intn(len(b))
		j := i + rng.Intn(len(b)-i)
		return string(b[:j]) + string(b[i:j]) + string(b[j:])
	case 5: // insert keyword
		i := rng.Intn(len(b) + 1)
		return string(b[:i]) + " " + sqlKeywords[rng.Intn(len(sqlKeywords))] + " " + string(b[i:])
	default: // swap case
		for k := 0; k < 3; k++ {
			i := rng.Intn(len(b))
			if b[i] >= 'a' && b[i] <= 'z' {
				b[i] -= 32
			} else if b[i] >= 'A' && b[i] <= 'Z' {
				b[i] += 32
			}
		}
		return string(b)
	}
}

func tableSQL(t *ddlTable, cols, tcons []string) string {
	suffix := ""
	if t.Suffix != "" {
		suffix = " " + strings.TrimSpace(t.Suffix)
	}
	return fmt.Sprintf("CREATE TABLE %s (%s)%s", t.Name, strings.Join(append(append([]string{}, cols...), tcons...), ", "), suffix)
}

func C16(run *hx.Run) {
	run.Rule = "(1) totality/determinism: strings = SQLite-validated generated CREATE TABLE/INDEX statements, byte/token mutations of them, keyword/token soup incl. multi-byte runes, unterminated quotes/brackets, extreme and malformed numbers, long inputs; each is parsed twice in a row, again after an unrelated statement, and concurrently from 8 goroutines - no panic, identical (statement, error) every time, finishes within the batch watchdog. (2) locality, for SQLite-accepted statements and their SQLite-accepted edits (element deleted, adjacent elements swapped, attribute-bearing column inserted before): what Parse reports for each column definition, table constraint and indexed column must equal the parse of that element alone (CREATE TABLE t(<column>), CREATE TABLE t(zz, <constraint>), CREATE INDEX i ON t(<indexed column>)). distinct = distinct strings parsed + distinct (statement, element) pairs compared; thorough adds coverage-guided go test -fuzz over sql.Parse"
	run.Assumptions = append(stdAssumptions, "the reference for an element is its parse in isolation", "non-termination is only visible to the wall-clock batch watchdog (120 s per 20 000 parses; normal cost: well under a second)")
	o := mustOracle(run)
	if o == nil {
		return
	}
	nProg := 1500
	if run.Thorough() {
		nProg = 25000
	}
	rep, err := ddlPrograms(o, run.Seed*7+16, nProg, "", true)
	o.Close()
	if err != nil {
		run.Inconclusive("ddl generator: " + err.Error())
		return
	}
	run.SetExtra("programs_generated", rep.Generated)
	run.SetExtra("programs_rejected_by_sqlite", rep.Rejected)
	rng := newRng(run, 16)

	// ---------- (2) locality ----------
	isoCol := map[string]parseOut{}
	isoColumn := func(c string) (sql.ColumnDef, bool) {
		po, ok := isoCol["c:"+c]
		if !ok {
			po = parseOnce("CREATE TABLE t (" + c + ")")
			isoCol["c:"+c] = po
		}
		if st, ok := po.res.(sql.CreateTableStmt); ok && po.err == "" && len(st.Columns) == 1 {
			return st.Columns[0], true
		}
		return sql.ColumnDef{}, false
	}
	isoTcon := func(c string) (sql.TableConstraint, bool) {
		po, ok := isoCol["t:"+c]
		if !ok {
			po = parseOnce("CREATE TABLE t (zz, " + c + ")")
			isoCol["t:"+c] = po
		}
		if st, ok := po.res.(sql.CreateTableStmt); ok && po.err == "" && len(st.Constraints) == 1 {
			return st.Constraints[0], true
		}
		return nil, false
	}
	isoIcol := func(c string) (sql.IndexedColumn, bool) {
		po, ok := isoCol["i:"+c]
		if !ok {
			po = parseOnce("CREATE INDEX i ON t (" + c + ")")
			isoCol["i:"+c] = po
		}
		if st, ok := po.res.(sql.CreateIndexStmt); ok && po.err == "" && len(st.IndexedColumns) == 1 {
			return st.IndexedColumns[0], true
		}
		return sql.IndexedColumn{}, false
	}
	// FOREIGN KEY / CHECK table constraints are not reported as elements by the parser; count what is
	checkTable := func(stmt string, cols, tcons []string, edit string) {
		po := parseOnce(stmt)
		run.Eval(1)
		if po.pm != "" {
			run.Violation("C16/panic/"+panicSite(po.pm), fmt.Sprintf("Parse panicked on %q: %s", stmt, firstLines(po.pm, 2)), hx.M{"sql": stmt})
			return
		}
		st, ok := po.res.(sql.CreateTableStmt)
		if po.err != "" || !ok {
			run.Count("sqlite_valid_statements_rejected_by_parser", 1)
			return
		}
		run.Count("statements_parsed", 1)
		if len(st.Columns) != len(cols) {
			run.Violation("C16/locality/column-count", fmt.Sprintf("%q: %d column definitions reported, statement has %d", stmt, len(st.Columns), len(cols)), hx.M{"sql": stmt})
			return
		}
		for i, c := range cols {
			iso, ok := isoColumn(c)
			if !ok {
				run.Count("elements_not_parseable_alone", 1)
				continue
			}
			run.Eval(1)
			run.Distinct("col:" + stmt + "#" + fmt.Sprint(i))
			run.See("edit_kind", edit)
			if !reflect.DeepEqual(st.Columns[i], iso) {
				diff := structDiff(st.Columns[i], iso)
				run.Violation("C16/locality/column/"+diff.field, fmt.Sprintf("column %q inside %q is reported as %+v, alone as %+v (differs in %s)", c, stmt, st.Columns[i], iso, diff.field),
					hx.M{"sql": stmt, "element": c, "edit": edit})
			}
		}
		// table constraints: the parser reports PRIMARY KEY and UNIQUE (and FOREIGN KEY) ones
		var reported []sql.TableConstraint
		reported = append(reported, st.Constraints...)
		var expect []sql.TableConstraint
		for _, c := range tcons {
			iso, ok := isoTcon(c)
			if !ok {
				// constraint kinds the parser does not report (CHECK) or cannot parse alone
				if po2 := isoCol["t:"+c]; po2.err != "" || po2.pm != "" {
					run.Count("elements_not_parseable_alone", 1)
					expect = nil
					reported = nil
					break
				}
				continue
			}
			expect = append(expect, iso)
		}
		if expect != nil || len(tcons) == 0 {
			run.Eval(1)
			if len(reported) != len(expect) {
				run.Violation("C16/locality/constraint-count", fmt.Sprintf("%q: %d table constraints reported, %d expected from the elements alone", stmt, len(reported), len(expect)), hx.M{"sql": stmt})
			} else {
				for i := range expect {
					run.Distinct("tcon:" + stmt + "#" + fmt.Sprint(i))
					if !reflect.DeepEqual(reported[i], expect[i]) {
						run.Violation("C16/locality/table-constraint", fmt.Sprintf("table constraint %d inside %q is reported as %+v, alone as %+v", i, stmt, reported[i], expect[i]), hx.M{"sql": stmt, "edit": edit})
					}
				}
			}
		}
		if st.WithoutRowid != (strings.Contains(strings.ToUpper(stmt[strings.LastIndex(stmt, ")"):]), "WITHOUT")) {
			run.Violation("C16/locality/without-rowid", fmt.Sprintf("%q: WithoutRowid reported %v", stmt, st.WithoutRowid), hx.M{"sql": stmt})
		}
	}
	checkIndex := func(stmt string, cols []string, where string, edit string) {
		po := parseOnce(stmt)
		run.Eval(1)
		if po.pm != "" {
			run.Violation("C16/panic/"+panicSite(po.pm), fmt.Sprintf("Parse panicked on %q: %s", stmt, firstLines(po.pm, 2)), hx.M{"sql": stmt})
			return
		}
		st, ok := po.res.(sql.CreateIndexStmt)
		if po.err != "" || !ok {
			run.Count("sqlite_valid_statements_rejected_by_parser", 1)
			return
		}
		run.Count("statements_parsed", 1)
		if len(st.IndexedColumns) != len(cols) {
			run.Violation("C16/locality/indexed-column-count", fmt.Sprintf("%q: %d indexed columns reported, statement has %d", stmt, len(st.IndexedColumns), len(cols)), hx.M{"sql": stmt})
			return
		}
		for i, c := range cols {
			iso, ok := isoIcol(c)
			if !ok {
				run.Count("elements_not_parseable_alone", 1)
				continue
			}
			run.Eval(1)
			run.Distinct("icol:" + stmt + "#" + fmt.Sprint(i))
			run.See("edit_kind", edit)
			if !reflect.DeepEqual(st.IndexedColumns[i], iso) {
				diff := structDiff(st.IndexedColumns[i], iso)
				run.Violation("C16/locality/indexed-column/"+diff.field, fmt.Sprintf("indexed column %q inside %q is reported as %+v, alone as %+v", c, stmt, st.IndexedColumns[i], iso), hx.M{"sql": stmt, "element": c, "edit": edit})
			}
		}
		if (st.Where != nil) != (where != "") {
			run.Violation("C16/locality/where", fmt.Sprintf("%q: Where reported as %v", stmt, st.Where), hx.M{"sql": stmt})
		}
	}
	var allStatements []string
	for pi := range rep.Programs {
		p := &rep.Programs[pi]
		t := &p.Table
		checkTable(p.SQL[0], t.Cols, t.Tcons, "original")
		allStatements = append(allStatements, p.SQL...)
		for _, v := range p.Variants {
			checkTable(v.SQL, v.Cols, v.Tcons, v.Edit)
			if rng.Intn(8) == 0 {
				allStatements = append(allStatements, v.SQL)
			}
		}
		for ii, ix := range t.Indexes {
			if ii+1 < len(p.SQL) {
				checkIndex(p.SQL[ii+1], ix.Cols, ix.Where, "original")
			}
		}
		for _, v := range p.IndexVariants {
			where := ""
			for _, ix := range t.Indexes {
				if ix.Name == v.Index {
					where = ix.Where
				}
			}
			checkIndex(v.SQL, v.Cols, where, v.Edit)
		}
		if pi < 3 {
			run.Sample(hx.M{"statement": p.SQL[0], "variants": len(p.Variants), "indexes": len(t.Indexes)})
		}
	}

	// ---------- (1) totality and determinism ----------
	var inputs []string
	inputs = append(inputs, allStatements...)
	nMut := 40000
	nSoup := 20000
	if run.Thorough() {
		nMut, nSoup = 600000, 300000
	}
	for i := 0; i < nMut && len(allStatements) > 0; i++ {
		s := allStatements[rng.Intn(len(allStatements))]
		for k := 0; k < 1+rng.Intn(3); k++ {
			s = mutateString(rng, s)
		}
		inputs = append(inputs, s)
	}
	for i := 0; i < nSoup; i++ {
		inputs = append(inputs, soup(rng, 1+rng.Intn(24)))
	}
	selects := []string{"SELECT * FROM t", "select a, b from \"t x\"", "SELECT a,* FROM [t]", "SELECT", "SELECT * FROM", "SELECT rowid, * FROM t WHERE a", "SELECT 'a' FROM t"}
	inputs = append(inputs, selects...)
	// minimal statements: they touch as little of the parser's state as a statement can, so whatever an earlier,
	// richer statement (the "unrelated" ones below set every optional clause) left behind shows in their result
	inputs = append(inputs, "CREATE TABLE p (x integer)", "CREATE TABLE p (x integer, y)", "CREATE TABLE p (a, b, c)", "CREATE TABLE q(a)", "CREATE TABLE q(a, b)",
		"CREATE TABLE r(a PRIMARY KEY)", "CREATE TABLE r(a INTEGER PRIMARY KEY)", "CREATE TABLE r(a, b, PRIMARY KEY(a))", "CREATE TABLE u(a UNIQUE)", "CREATE TABLE d(a DEFAULT 1)",
		"CREATE INDEX i ON t(a)", "CREATE INDEX i ON t(a, b)", "CREATE UNIQUE INDEX i ON t(a)", "CREATE TABLE c(a COLLATE nocase)", "CREATE TABLE n(a NOT NULL)", "CREATE TABLE f(a REFERENCES o)",
		"CREATE TABLE w(a PRIMARY KEY) WITHOUT ROWID", "SELECT a FROM t")
	for _, big := range []int{1 << 10, 1 << 14, 1 << 16} {
		inputs = append(inputs,
			"CREATE TABLE t("+strings.Repeat("a,", big/2)+"b)",
			"CREATE TABLE t(a DEFAULT '"+strings.Repeat("''", big/2)+"')",
			"CREATE TABLE t(a CHECK("+strings.Repeat("(", big/8)+"1"+strings.Repeat(")", big/8)+"))",
			"CREATE TABLE "+strings.Repeat("x", big)+"(a)",
			strings.Repeat("'", big), strings.Repeat("\"", big+1), strings.Repeat("[", big), strings.Repeat("-", big), strings.Repeat("1", big),
			"CREATE INDEX i ON t("+strings.Repeat("a+", big/4)+"1)",
			"CREATE TABLE t(a "+strings.Repeat("NOT NULL ", big/16)+")")
	}
	// very long inputs (tens of megabytes), one parse each: recursion that follows the input length overflows
	// the stack - a fatal error no caller can recover, reported by the parent process as a crash of this one -
	// and anything quadratic in the input length does not finish (watchdog)
	{
		huge := []string{
			"CREATE TABLE t(\"" + strings.Repeat("\"\"", 12<<20) + "\" int)",
			"CREATE TABLE t(a DEFAULT '" + strings.Repeat("''", 12<<20) + "')",
			"CREATE TABLE t(`" + strings.Repeat("``", 6<<20) + "` int)",
			"CREATE TABLE t(a CHECK(" + strings.Repeat("(", 1<<18) + "1" + strings.Repeat(")", 1<<18) + "))",
			"CREATE TABLE t(" + strings.Repeat("a int, ", 1<<17) + "b)",
			"CREATE TABLE t(a " + strings.Repeat("-", 1<<19) + "1)",
			"SELECT " + strings.Repeat("a,", 1<<18) + "b FROM t",
		}
		for hi, h := range huge {
			done := make(chan parseOut, 1)
			go func() { done <- parseOnce(h) }()
			select {
			case r := <-done:
				run.Eval(1)
				run.Distinct(fmt.Sprintf("huge:%d", hi))
				if r.pm != "" {
					run.Violation("C16/panic/huge-input/"+panicSite(r.pm), fmt.Sprintf("Parse panicked on a %d-byte input starting %q: %s", len(h), clip(h, 40), firstLines(r.pm, 2)), nil)
				}
				run.See("huge_input_bytes", fmt.Sprint(len(h)))
			case <-time.After(180 * time.Second):
				run.Violation("C16/hang/huge-input", fmt.Sprintf("Parse of a %d-byte input starting %q did not finish within 180 s (cost must stay near-linear in the input)", len(h), clip(h, 40)), nil)
			}
		}
	}
	unrelated := []string{"CREATE TABLE zz(q INTEGER PRIMARY KEY AUTOINCREMENT, w TEXT COLLATE NOCASE UNIQUE DEFAULT 'd' REFERENCES o(i) ON DELETE CASCADE DEFERRABLE INITIALLY DEFERRED, UNIQUE(w DESC), PRIMARY KEY(q)) WITHOUT ROWID",
		"CREATE UNIQUE INDEX zzi ON zz(w COLLATE RTRIM DESC, q) WHERE w IS NOT NULL", "SELECT * FROM zz",
		// short ones: what a statement leaves behind depends on its shape, not only on its clauses
		"CREATE TABLE kv (k text primary key, v) WITHOUT ROWID", "CREATE TABLE a1(x PRIMARY KEY DESC) WITHOUT ROWID", "CREATE TABLE au(i INTEGER PRIMARY KEY AUTOINCREMENT)",
		"CREATE INDEX j ON t(a DESC)", "CREATE UNIQUE INDEX u ON t(a COLLATE nocase) WHERE a > 1", "CREATE TABLE d1(a DEFAULT 'x' COLLATE rtrim UNIQUE NOT NULL)"}
	const batch = 20000
	for start := 0; start < len(inputs); start += batch {
		end := start + batch
		if end > len(inputs) {
			end = len(inputs)
		}
		chunk := inputs[start:end]
		done := make(chan struct{})
		var cur string
		var curMu sync.Mutex
		go func() {
			defer close(done)
			for _, s := range chunk {
				curMu.Lock()
				cur = s
				curMu.Unlock()
				a := parseOnce(s)
				b := parseOnce(s)
				parseOnce(unrelated[len(s)%len(unrelated)])
				c := parseOnce(s)
				// and after two more predecessors of other shapes
				for k := 1; k <= 2; k++ {
					parseOnce(unrelated[(len(s)+3*k)%len(unrelated)])
					if c2 := parseOnce(s); !sameParse(a, c2) {
						c = c2
						break
					}
				}
				run.Eval(1)
				run.Distinct("s:" + s)
				if a.pm != "" {
					run.Violation("C16/panic/"+panicSite(a.pm), fmt.Sprintf("Parse panicked on %q: %s", clip(s, 200), firstLines(a.pm, 2)), hx.M{"sql": s})
					continue
				}
				if !sameParse(a, b) || !sameParse(a, c) {
					run.Violation("C16/nondeterministic", fmt.Sprintf("Parse(%q) gave different results on repeated calls: %+v/%q vs %+v/%q vs %+v/%q", clip(s, 200), a.res, a.err, b.res, b.err, c.res, c.err), hx.M{"sql": s})
				}
				if a.err != "" {
					run.See("parse_outcome", "error")
				} else {
					run.See("parse_outcome", fmt.Sprintf("%T", a.res))
				}
			}
		}()
		select {
		case <-done:
		case <-time.After(120 * time.Second):
			curMu.Lock()
			s := cur
			curMu.Unlock()
			// confirm alone
			d2 := make(chan struct{})
			go func() { parseOnce(s); close(d2) }()
			select {
			case <-d2:
				run.Inconclusive("parse batch exceeded the watchdog but the suspect input finishes alone")
			case <-time.After(60 * time.Second):
				run.Violation("C16/hang", fmt.Sprintf("Parse(%q) did not finish within 60 s alone", clip(s, 300)), hx.M{"sql": s})
			}
			return
		}
	}
	// concurrent determinism: same strings from 8 goroutines against the sequential results
	{
		sample := make([]string, 0, 4000)
		for i := 0; i < 4000 && len(inputs) > 0; i++ {
			sample = append(sample, inputs[rng.Intn(len(inputs))])
		}
		seq := make([]parseOut, len(sample))
		for i, s := range sample {
			seq[i] = parseOnce(s)
		}
		var wg sync.WaitGroup
		for g := 0; g < 8; g++ {
			wg.Add(1)
			go func(g int) {
				defer wg.Done()
				for i := range sample {
					j := (i*7 + g*131) % len(sample)
					po := parseOnce(sample[j])
					run.Eval(1)
					if !sameParse(po, seq[j]) {
						run.Violation("C16/nondeterministic-concurrent", fmt.Sprintf("Parse(%q) under concurrency differs from its sequential result", clip(sample[j], 200)), hx.M{"sql": sample[j]})
					}
				}
			}(g)
		}
		wg.Wait()
		run.Count("concurrent_parses", 8*len(sample))
	}
	// concurrency without warm-up: statements whose keyword spellings no parse in this process has seen yet
	{
		recase := func(s string, r *rand.Rand) string {
			b := []byte(s)
			for i, c := range b {
				if c >= 'a' && c <= 'z' && r.Intn(2) == 0 {
					b[i] = c - 32
				} else if c >= 'A' && c <= 'Z' && r.Intn(2) == 0 {
					b[i] = c + 32
				}
			}
			return string(b)
		}
		base := []string{"create table t(a integer primary key autoincrement, b text collate nocase unique not null default 'x' references o(i) on delete cascade deferrable initially deferred, unique(b desc), check(a > 0)) without rowid",
			"create unique index i on t(a desc, b collate rtrim asc) where a is not null or b like 'x'", "select a, * from t", "create table t(a, constraint c foreign key(a) references o(i) on update set null match simple)"}
		novel := make([]string, 6000)
		for i := range novel {
			novel[i] = recase(base[i%len(base)], rng)
		}
		results := make([]parseOut, len(novel))
		var wg sync.WaitGroup
		for g := 0; g < 16; g++ {
			wg.Add(1)
			go func(g int) {
				defer wg.Done()
				for i := g; i < len(novel); i += 16 {
					results[i] = parseOnce(novel[i])
				}
			}(g)
		}
		wg.Wait()
		for i, s := range novel {
			run.Eval(1)
			seq := parseOnce(s)
			if results[i].pm != "" {
				run.Violation("C16/panic/"+panicSite(results[i].pm), fmt.Sprintf("Parse panicked under concurrency on %q: %s", clip(s, 160), firstLines(results[i].pm, 2)), hx.M{"sql": s})
			} else if !sameParse(seq, results[i]) {
				run.Violation("C16/nondeterministic-concurrent", fmt.Sprintf("Parse(%q) from 16 goroutines (first use of this spelling) differs from parsing it alone afterwards", clip(s, 160)), hx.M{"sql": s})
			}
		}
		run.Count("novel_spellings_parsed_concurrently_first", len(novel))
	}
	run.Count("strings_parsed", len(inputs))
	if run.Thorough() {
		c16Fuzz(run, allStatements)
	}
}

func clip(s string, n int) string {
	if len(s) > n {
		return s[:n] + "…"
	}
	return s
}

type fieldDiff struct{ field string }

// structDiff names the first differing field of two structs of the same type.
func structDiff(a, b interface{}) fieldDiff {
	va, vb := reflect.ValueOf(a), reflect.ValueOf(b)
	if va.Kind() == reflect.Struct && va.Type() == vb.Type() {
		for i := 0; i < va.NumField(); i++ {
			if !reflect.DeepEqual(va.Field(i).Interface(), vb.Field(i).Interface()) {
				return fieldDiff{va.Type().Field(i).Name}
			}
		}
	}
	return fieldDiff{"value"}
}

// c16Fuzz runs go's coverage-guided fuzzer over sql.Parse (thorough tier),
// bounded by executions. A crasher is a violation; the corpus entry is copied
// to the replay directory.
func c16Fuzz(run *hx.Run, seeds []string) {
	fdir := filepath.Join(hx.VerifDir(), "harness", "fuzzparse")
	work, cleanup := hx.ScratchDir("C16fuzz")
	defer cleanup()
	// seed corpus in the scratch cache dir
	corpusDir := filepath.Join(work, "corpus", "FuzzParse")
	os.MkdirAll(corpusDir, 0o755)
	for i, s := range seeds {
		if i >= 400 {
			break
		}
		os.WriteFile(filepath.Join(corpusDir, fmt.Sprintf("seed%d", i)), []byte("go test fuzz v1\nstring("+fmt.Sprintf("%q", s)+")\n"), 0o644)
	}
	n := "3000000x"
	if v := os.Getenv("VERIF_FUZZ_EXECS"); v != "" {
		n = v + "x"
	}
	cmd := exec.Command("go", "test", "-tags", "verif", "-run", "^$", "-fuzz", "^FuzzParse$", "-fuzztime", n, "-test.fuzzcachedir", filepath.Join(work, "corpus"), ".")
	cmd.Dir = fdir
	cmd.Env = append(os.Environ(), "GOFLAGS=-mod=mod", "GOPROXY=off", "GOSUMDB=off", "GOTOOLCHAIN=local")
	out, err := cmd.CombinedOutput()
	txt := string(out)
	if err != nil {
		if strings.Contains(txt, "Failing input written to") || strings.Contains(txt, "--- FAIL") {
			// copy crashers
			crashers, _ := filepath.Glob(filepath.Join(fdir, "testdata", "fuzz", "FuzzParse", "*"))
			var kept []string
			for _, c := range crashers {
				b, _ := os.ReadFile(c)
				dst := filepath.Join(run.ReplayDir(), "fuzz-"+filepath.Base(c))
				os.WriteFile(dst, b, 0o644)
				kept = append(kept, dst)
				os.Remove(c)
			}
			run.Violation("C16/fuzz-crash", "coverage-guided fuzzing of sql.Parse found a failing input: "+lastBytes(txt, 1500), hx.M{"crashers": kept})
		} else {
			run.Inconclusive("go test -fuzz could not run: " + lastBytes(txt, 600))
		}
		return
	}
	run.Count("fuzz_runs_completed", 1)
	for _, line := range strings.Split(txt, "\n") {
		if strings.Contains(line, "execs:") {
			run.SetExtra("fuzz_last_status", strings.TrimSpace(line))
		}
	}
}
