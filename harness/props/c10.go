//go:build verif

package props

import (
	"encoding/json"
	"fmt"
	"path/filepath"
	"strings"
	"sync"

	"github.com/alicebob/sqlittle"
	sdb "github.com/alicebob/sqlittle/db"
	"github.com/alicebob/sqlittle/sql"

	"verifharness/hx"
)

func init() { register("C10", "exploration", C10) }

func collName(s string) string {
	if s == "" {
		return "BINARY"
	}
	return strings.ToUpper(s)
}

func C10(run *hx.Run) {
	run.Rule = "grammar-generated CREATE TABLE (+ CREATE INDEX) programs over the property's constraint space (column/table PRIMARY KEY ASC/DESC, UNIQUE, COLLATE, NOT NULL, DEFAULT, CHECK, REFERENCES in random textual order, duplicate/overlapping constraints, quoted/bracketed/backticked identifiers and type names, WITHOUT ROWID, partial and expression indexes) are executed by SQLite into one database file; for every table sqlittle accepts, Database.Schema / DB.Columns are compared with SQLite's PRAGMA table_xinfo (names, order), table_list (WITHOUT ROWID), rowid alias (single pk column, no pk index; confirmed by data: c IS rowid), primary key columns/collations/directions, and for every index sqlittle lists - matched by NAME - index_xinfo key columns, desc, coll; WITHOUT ROWID appended key columns are checked behaviourally (IndexedSelect must return SQLite's rows in SQLite's order). distinct = distinct accepted programs (by statement text); non-trivial = programs with at least one constraint or index"
	run.Assumptions = append(stdAssumptions, "an index sqlittle leaves out, or a table it rejects, is not a violation (counted)")
	dir, cleanup := hx.ScratchDir("C10")
	defer cleanup()
	nFiles, perFile := 24, 125
	if run.Thorough() {
		nFiles, perFile = 400, 200
	}
	jobs := make(chan int, nFiles)
	for f := 0; f < nFiles; f++ {
		jobs <- f
	}
	close(jobs)
	var wg sync.WaitGroup
	for wi := 0; wi < nWorkers(); wi++ {
		wg.Add(1)
		go func() {
			defer wg.Done()
			o, err := hx.StartOracle()
			if err != nil {
				run.Inconclusive("oracle: " + err.Error())
				return
			}
			defer o.Close()
			for f := range jobs {
				c10File(run, o, dir, f, perFile)
			}
		}()
	}
	wg.Wait()
}

func c10File(run *hx.Run, o *hx.Oracle, dir string, f, perFile int) {
	path := filepath.Join(dir, fmt.Sprintf("ddl%d.sqlite", f))
	rep, err := ddlPrograms(o, run.Seed*101+int64(f), perFile, path, false)
	if err != nil {
		run.Inconclusive("ddl generator: " + err.Error())
		return
	}
	run.Count("programs_generated", rep.Generated)
	run.Count("programs_accepted_by_sqlite", len(rep.Programs))
	db, err := sqlittle.Open(path)
	if err != nil {
		run.Violation("C10/open", "Open failed: "+err.Error(), nil)
		return
	}
	defer db.Close()
	low, err := sdb.OpenFile(path)
	if err != nil {
		run.Violation("C10/open-low", "OpenFile failed: "+err.Error(), nil)
		return
	}
	defer low.Close()
	if f%2 == 0 {
		// every other file: the high-level calls go through the SAME handle the definitions are read from,
		// so that anything a read leaves behind in the handle's view of the schema shows up
		db.Close()
		db = sqlittle.VerifWrap(low)
		run.See("handle_sharing", "high-level calls on the handle Schema() is read from")
	} else {
		run.See("handle_sharing", "separate handles")
	}
	sqlByTable := map[string][]string{}
	for _, p := range rep.Programs {
		if len(p.SQL) > 0 {
			sqlByTable[hx.FoldName(unquoteIdent(p.Table.Name))] = p.SQL
		}
	}
	for ti := range rep.Meta {
		t := &rep.Meta[ti]
		if t.Name == "other" {
			continue
		}
		c10Table(run, o, path, db, low, t, sqlByTable[hx.FoldName(t.Name)], "")
	}
}

func unquoteIdent(name string) string {
	if len(name) >= 2 {
		switch {
		case name[0] == '"' && name[len(name)-1] == '"':
			return strings.ReplaceAll(name[1:len(name)-1], `""`, `"`)
		case name[0] == '[' && name[len(name)-1] == ']':
			return name[1 : len(name)-1]
		case name[0] == '`' && name[len(name)-1] == '`':
			return strings.ReplaceAll(name[1:len(name)-1], "``", "`")
		}
	}
	return name
}

// c10Causes names the features of a definition that are known to trip
// sqlittle's automatic-index derivation; they become part of the violation key
// so that a mismatch with a different (or no) cause is reported as new.
func c10Causes(t *hx.TableInfo, p *ddlProgram) string {
	if p == nil {
		return "unknown-program"
	}
	declared := 0
	colCollateConstraint := false
	pkDescColumn := false
	intPK := false
	for _, c := range p.Table.Cols {
		u := strings.ToUpper(c)
		hasPK := strings.Contains(u, "PRIMARY KEY")
		nU := strings.Count(u, "UNIQUE")
		if hasPK {
			declared++
		}
		declared += nU
		if (hasPK || nU > 0) && strings.Contains(u, " COLLATE ") && !strings.Contains(u, " COLLATE BINARY") {
			colCollateConstraint = true
		}
		if hasPK && strings.Contains(u, "PRIMARY KEY DESC") {
			pkDescColumn = true
		}
		if hasPK {
			f := strings.Fields(c)
			if len(f) > 1 && strings.EqualFold(strings.Trim(f[1], "\"[]`"), "INTEGER") {
				intPK = true
			}
		}
	}
	for _, c := range p.Table.Tcons {
		u := strings.ToUpper(c)
		if strings.Contains(u, "PRIMARY KEY") || strings.Contains(u, "UNIQUE (") {
			declared++
		}
		if strings.Contains(u, "PRIMARY KEY") {
			// single INTEGER column primary key declared as a table constraint
			inner := c[strings.Index(c, "(")+1:]
			if !strings.Contains(inner, ",") {
				name := strings.Fields(strings.TrimRight(inner, ") "))[0]
				for _, col := range p.Table.Cols {
					f := strings.Fields(col)
					if len(f) > 1 && f[0] == name && strings.EqualFold(strings.Trim(f[1], "\"[]`"), "INTEGER") {
						intPK = true
					}
				}
			}
		}
	}
	if t.RowidAlias != nil {
		declared-- // the rowid alias primary key has no index
	}
	actual := 0
	for _, ix := range t.Indexes {
		if ix.Origin == "pk" || ix.Origin == "u" {
			actual++
		}
	}
	var causes []string
	if actual < declared {
		causes = append(causes, "duplicate-constraints-merged-by-sqlite")
	}
	if colCollateConstraint {
		causes = append(causes, "column-constraint-on-collated-column")
	}
	if pkDescColumn && actual < declared {
		causes = append(causes, "pk-desc-column")
	}
	if t.WR != 0 && intPK {
		causes = append(causes, "integer-pk-without-rowid")
	}
	if len(causes) == 0 {
		return "none"
	}
	return strings.Join(causes, "+")
}

func c10Table(run *hx.Run, o *hx.Oracle, path string, db *sqlittle.DB, low *sdb.Database, t *hx.TableInfo, stmts []string, causes string) {
	var s *sdb.Schema
	var err error
	run.Eval(1)
	detail := hx.M{"table": t.Name, "sql": stmts}
	if p, pm := safely(func() { s, err = low.Schema(t.Name) }); p {
		run.Violation("C10/panic/"+panicSite(pm), fmt.Sprintf("Schema(%q) panicked: %s", t.Name, firstLines(pm, 2)), detail)
		return
	}
	if err != nil {
		run.Count("tables_rejected_by_sqlittle", 1)
		return
	}
	run.Count("tables_accepted_by_sqlittle", 1)
	sigBefore := ""
	if b, err := json.Marshal(s); err == nil {
		sigBefore = string(b)
	}
	if len(stmts) > 0 {
		run.Distinct(strings.Join(stmts, ";"))
	}
	tsql := ""
	if t.SQL != nil {
		tsql = *t.SQL
	}
	// `INTEGER(8) PRIMARY KEY`: the parser drops the "(8)", so the column is
	// taken for a rowid alias; everything derived from that is one finding
	sizedIntPK := false
	for _, c := range t.Cols {
		ut := strings.ToUpper(strings.ReplaceAll(c.Type, " ", ""))
		if c.PK > 0 && strings.HasPrefix(ut, "INTEGER(") {
			sizedIntPK = true
		}
	}
	bad := func(key, what string) {
		if sizedIntPK {
			key = "sized-integer-pk-type"
		}
		run.Violation("C10/"+key, fmt.Sprintf("%s; definition: %s", what, clip(tsql, 400)), detail)
	}
	// columns
	names := t.ColNames()
	if len(s.Columns) != len(names) {
		bad("columns/count", fmt.Sprintf("table %q: sqlittle reports %d columns, SQLite %d", t.Name, len(s.Columns), len(names)))
		return
	}
	for i, c := range s.Columns {
		if c.Column != names[i] {
			bad("columns/name", fmt.Sprintf("table %q column %d: sqlittle %q, SQLite %q", t.Name, i, c.Column, names[i]))
			return
		}
	}
	if cols, err := db.Columns(t.Name); err != nil || strings.Join(cols, "\x00") != strings.Join(names, "\x00") {
		bad("columns/DB.Columns", fmt.Sprintf("DB.Columns(%q) = %v, %v; SQLite %v", t.Name, cols, err, names))
	}
	// WITHOUT ROWID
	if s.WithoutRowid != (t.WR != 0) {
		bad("without-rowid", fmt.Sprintf("table %q: WithoutRowid=%v, SQLite wr=%d", t.Name, s.WithoutRowid, t.WR))
		return
	}
	// rowid alias
	alias := ""
	for _, c := range s.Columns {
		if c.Rowid {
			if alias != "" {
				bad("rowid-alias/two", fmt.Sprintf("table %q: two rowid alias columns", t.Name))
			}
			alias = c.Column
		}
	}
	wantAlias := ""
	if t.RowidAlias != nil {
		wantAlias = *t.RowidAlias
	}
	if alias != wantAlias || s.RowidPK != (wantAlias != "") {
		bad("rowid-alias", fmt.Sprintf("table %q: sqlittle says rowid alias %q (RowidPK=%v), SQLite %q", t.Name, alias, s.RowidPK, wantAlias))
	} else if wantAlias != "" {
		run.See("feature", "rowid-alias")
		// confirm by data that SQLite really treats it as the rowid
		// (through a rowid keyword that no real column of the table shadows)
		if rn := t.RowidName(); rn == "" {
			run.Count("alias_tables_with_all_rowid_names_shadowed", 1)
		} else if r, err := o.Query(path, fmt.Sprintf("SELECT count(*) FROM %s WHERE %s IS NOT %s", hx.QuoteIdent(t.Name), hx.QuoteIdent(wantAlias), rn)); err == nil && r[0][0].(int64) != 0 {
			run.Inconclusive("alias derivation from pragmas disagrees with data for " + t.Name)
		}
	}
	// primary key
	pk := t.PKIndex()
	if t.WR != 0 {
		if pk == nil {
			run.Inconclusive("WITHOUT ROWID table without pk index in SQLite's pragma: " + t.Name)
		} else {
			kc := pk.KeyCols()
			if len(kc) != len(s.PK) {
				bad("pk/count", fmt.Sprintf("table %q: sqlittle PK has %d columns, SQLite %d", t.Name, len(s.PK), len(kc)))
			} else {
				for i := range kc {
					if !hx.SameName(s.PK[i].Column, *kc[i].Name) || (s.PK[i].SortOrder == sql.Desc) != (kc[i].Desc != 0) || collName(s.PK[i].Collate) != collName(*kc[i].Coll) {
						bad("pk/column", fmt.Sprintf("table %q PK column %d: sqlittle {%s %s desc=%v}, SQLite {%s %s desc=%d}", t.Name, i, s.PK[i].Column, s.PK[i].Collate, s.PK[i].SortOrder == sql.Desc, *kc[i].Name, *kc[i].Coll, kc[i].Desc))
						break
					}
				}
			}
			run.See("feature", "without-rowid")
		}
	} else if pk != nil {
		if !hx.SameName(s.PrimaryKey, pk.Name) {
			bad("pk/index-name", fmt.Sprintf("table %q: sqlittle names the primary key index %q, SQLite %q", t.Name, s.PrimaryKey, pk.Name))
		}
		run.See("feature", "pk-index")
	} else if s.PrimaryKey != "" {
		bad("pk/phantom", fmt.Sprintf("table %q: sqlittle names a primary key index %q, SQLite has none", t.Name, s.PrimaryKey))
	}
	// indexes, matched by name
	byName := map[string]*hx.IndexInfo{}
	for i := range t.Indexes {
		byName[hx.FoldName(t.Indexes[i].Name)] = &t.Indexes[i]
	}
	listed := map[string]bool{}
	for _, si := range s.Indexes {
		ix, ok := byName[hx.FoldName(si.Index)]
		listed[hx.FoldName(si.Index)] = true
		if !ok {
			bad("index/unknown-name", fmt.Sprintf("table %q: sqlittle lists index %q, SQLite has %v", t.Name, si.Index, keysOf(byName)))
			continue
		}
		run.Eval(1)
		run.See("index_origin", ix.Origin)
		kc := ix.KeyCols()
		// sqlittle may already have appended pk columns (WITHOUT ROWID) - compare the declared key columns
		if len(si.Columns) < len(kc) {
			bad("index/column-count/origin-"+ix.Origin, fmt.Sprintf("index %q: sqlittle has %d key columns, SQLite %d", si.Index, len(si.Columns), len(kc)))
			continue
		}
		for i := range kc {
			sc := si.Columns[i]
			want := ""
			if kc[i].Name != nil {
				want = *kc[i].Name
			}
			switch {
			case kc[i].Cid == -2:
				if sc.Column != "" {
					bad("index/expression-as-column", fmt.Sprintf("index %q column %d: SQLite has an expression, sqlittle column %q", si.Index, i, sc.Column))
				}
				run.See("feature", "expression-index")
			case !hx.SameName(sc.Column, want):
				bad("index/column-name/origin-"+ix.Origin, fmt.Sprintf("index %q (origin %s) column %d: sqlittle %q, SQLite %q", si.Index, ix.Origin, i, sc.Column, want))
			}
			if (sc.SortOrder == sql.Desc) != (kc[i].Desc != 0) {
				bad("index/direction/origin-"+ix.Origin, fmt.Sprintf("index %q (origin %s) column %d (%s): sqlittle desc=%v, SQLite desc=%d", si.Index, ix.Origin, i, want, sc.SortOrder == sql.Desc, kc[i].Desc))
			}
			if kc[i].Coll != nil && collName(sc.Collate) != collName(*kc[i].Coll) {
				ck := "index/collation/origin-" + ix.Origin
				if kc[i].Cid == -2 {
					ck = "index/collation/expression-column"
				}
				bad(ck, fmt.Sprintf("index %q (origin %s) column %d (%s): sqlittle collation %q, SQLite %q", si.Index, ix.Origin, i, want, sc.Collate, *kc[i].Coll))
			}
			if kc[i].Coll != nil && *kc[i].Coll != "BINARY" {
				run.See("feature", "collated-index-column")
			}
			if kc[i].Desc != 0 {
				run.See("feature", "desc-index-column")
			}
		}
		if ix.Partial != 0 {
			run.See("feature", "partial-index")
		}
	}
	for n, ix := range byName {
		if !listed[n] && !(t.WR != 0 && ix.Origin == "pk") {
			run.Count("indexes_left_out_by_sqlittle", 1)
		}
	}
	// behavioural check of the appended key columns and of index order
	rn := t.RowidName()
	if t.Count != 0 && (t.WR != 0 || rn != "") {
		cols := names
		sel := selectList(cols)
		if t.WR == 0 {
			// the rowid through a keyword that no real column shadows, in the query and in ORDER BY alike
			cols = append([]string{rn}, cols...)
			sel = rn + ", " + sel
		}
		for _, si := range s.Indexes {
			ix := byName[hx.FoldName(si.Index)]
			if ix == nil || ix.Partial != 0 {
				continue
			}
			hasExpr := false
			for _, c := range ix.Cols {
				if c.Cid == -2 {
					hasExpr = true
				}
			}
			if hasExpr {
				continue
			}
			order, err := hx.OrderByIndex(ix, hx.GenIndexMeta{}, rn)
			if err != nil {
				continue
			}
			want, err := o.Query(path, fmt.Sprintf("SELECT %s FROM %s ORDER BY %s", sel, hx.QuoteIdent(t.Name), order))
			if err != nil {
				continue
			}
			got, err, pm := collectIndexed(db, t.Name, si.Index, cols)
			run.Eval(1)
			if pm != "" {
				bad("indexed-select/panic", fmt.Sprintf("IndexedSelect(%q, %q) panicked: %s", t.Name, si.Index, firstLines(pm, 2)))
			} else if err != nil {
				bad("indexed-select/error", fmt.Sprintf("IndexedSelect(%q, %q): %v", t.Name, si.Index, err))
			} else if df := diffRows(want, got); df != "" {
				bad("indexed-select/"+diffKind(want, got), fmt.Sprintf("IndexedSelect(%q, %q): %s", t.Name, si.Index, df))
			} else {
				run.Count("behavioural_index_checks_equal", 1)
			}
		}
		// and the table scan itself (column store order of WITHOUT ROWID tables)
		order, err := hx.OrderByTable(t)
		if err == nil {
			want, err := o.Query(path, fmt.Sprintf("SELECT %s FROM %s ORDER BY %s", sel, hx.QuoteIdent(t.Name), order))
			if err == nil {
				got, err, pm := collectSelect(db, t.Name, cols)
				run.Eval(1)
				if pm != "" {
					bad("select/panic", "Select panicked: "+firstLines(pm, 2))
				} else if err != nil {
					bad("select/error", fmt.Sprintf("Select(%q): %v", t.Name, err))
				} else if df := diffRows(want, got); df != "" {
					bad("select/"+diffKind(want, got), fmt.Sprintf("Select(%q): %s", t.Name, df))
				}
			}
		}
	}
	// the parsed definitions attached to low-level handles: total (an error, never a panic, whatever kind of
	// object the handle stands for) and, where they parse, about the right object
	if err := low.RLock(); err == nil {
		p, pm := safely(func() {
			if t.WR == 0 {
				if th, err := low.Table(t.Name); err == nil {
					if def, err := th.Def(); err == nil {
						run.Count("table_defs_parsed", 1)
						if len(def.Columns) != len(names) {
							bad("def/table-columns", fmt.Sprintf("Table(%q).Def() has %d columns, SQLite %d", t.Name, len(def.Columns), len(names)))
						}
					}
				}
			} else if ih, err := low.NonRowidTable(t.Name); err == nil {
				// this handle carries the table's CREATE TABLE text: Def() has no CREATE INDEX to give
				if _, err := ih.Def(); err == nil {
					bad("def/without-rowid-table-as-index", fmt.Sprintf("NonRowidTable(%q).Def() returns a CREATE INDEX definition for a table", t.Name))
				}
				run.Count("without_rowid_handle_defs", 1)
			}
			for _, si := range s.Indexes {
				if ih, err := low.Index(si.Index); err == nil {
					if def, err := ih.Def(); err == nil {
						run.Count("index_defs_parsed", 1)
						if !hx.SameName(def.Table, t.Name) {
							bad("def/index-table", fmt.Sprintf("Index(%q).Def() names table %q, it belongs to %q", si.Index, def.Table, t.Name))
						}
					}
				}
			}
		})
		low.RUnlock()
		if p {
			bad("def/panic", "Def() panicked: "+firstLines(pm, 3))
		}
	}
	// the definition as reported must not depend on which reads ran before
	if sigBefore != "" {
		var s2 *sdb.Schema
		var err2 error
		if p, pm := safely(func() { s2, err2 = low.Schema(t.Name) }); p {
			bad("schema-after-reads/panic", "Schema panicked after reads: "+firstLines(pm, 2))
		} else if err2 != nil {
			bad("schema-after-reads/error", fmt.Sprintf("Schema(%q) fails after reads on the handle: %v", t.Name, err2))
		} else if b, err := json.Marshal(s2); err == nil && string(b) != sigBefore {
			bad("schema-after-reads/changed", fmt.Sprintf("Schema(%q) differs after the table was read through its indexes: before %s, after %s", t.Name, clip(sigBefore, 600), clip(string(b), 600)))
		} else {
			run.Count("schema_stable_after_reads", 1)
		}
	}
	if run.Seen("sampled", "x") < 4 && len(s.Indexes) > 1 {
		run.See("sampled", "x")
		var ixs []string
		for _, si := range s.Indexes {
			ixs = append(ixs, fmt.Sprintf("%s%v", si.Index, si.Columns))
		}
		run.Sample(hx.M{"sql": stmts, "sqlittle_indexes": ixs, "pk": s.PrimaryKey, "rowid_pk": s.RowidPK})
	}
}

func keysOf(m map[string]*hx.IndexInfo) []string {
	var out []string
	for k := range m {
		out = append(out, k)
	}
	return out
}
