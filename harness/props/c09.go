//go:build verif

package props

import (
	"bufio"
	"bytes"
	"encoding/binary"
	"fmt"
	"io"
	"os"
	"path/filepath"
	"strings"
	"sync"

	"github.com/alicebob/sqlittle"

	"verifharness/hx"
)

func init() { register("C09", "fault_enumeration", C09) }

type c09Scenario struct {
	jmode    string
	scenario string
	ps       int
	psow0    bool // 4096-byte journal sectors
	stale    bool
	// the stale PERSIST journal comes from an earlier, completed run of the SAME transaction kind, so the
	// crashed transaction's journal is not longer than the cold one the long-lived handle has already seen
	staleSame bool
}

func (s c09Scenario) name() string {
	n := fmt.Sprintf("%s/%s/ps%d", s.jmode, s.scenario, s.ps)
	if s.psow0 {
		n += "/sector4096"
	}
	if s.stale {
		n += "/stale-journal"
	}
	if s.staleSame {
		n += "-of-same-size"
	}
	return n
}

func (s c09Scenario) writerScenario() string {
	if s.scenario == "create-first" {
		return fmt.Sprintf("create-first@%d", s.ps)
	}
	return s.scenario
}

type shimOp struct {
	k    int
	kind string
	file string
}

func readShimLog(path string) []shimOp {
	f, err := os.Open(path)
	if err != nil {
		return nil
	}
	defer f.Close()
	var out []shimOp
	sc := bufio.NewScanner(f)
	for sc.Scan() {
		fs := strings.Fields(sc.Text())
		if len(fs) >= 3 {
			var k int
			fmt.Sscan(fs[0], &k)
			out = append(out, shimOp{k, fs[1], fs[2]})
		}
	}
	return out
}

func copyFile(src, dst string) error {
	in, err := os.Open(src)
	if err != nil {
		return err
	}
	defer in.Close()
	out, err := os.Create(dst)
	if err != nil {
		return err
	}
	defer out.Close()
	_, err = io.Copy(out, in)
	return err
}

var journalMagic = []byte{0xd9, 0xd5, 0x05, 0xf9, 0x20, 0xa1, 0x63, 0xd7}

// journalClass inspects the journal left behind (by reading it: no sqlittle
// handle exists on the database at that time).
func journalClass(path string) string {
	b, err := os.ReadFile(path)
	if err != nil {
		return "absent"
	}
	if len(b) == 0 {
		return "empty"
	}
	if len(b) < 8 || !bytes.Equal(b[:8], journalMagic) {
		allZero := true
		for _, x := range b[:min(len(b), 28)] {
			if x != 0 {
				allZero = false
			}
		}
		if allZero {
			return "zero-header"
		}
		return "no-magic"
	}
	return "magic-present"
}

var errRefusedAtOpen = fmt.Errorf("refused at open")

func C09(run *hx.Run) {
	run.Rule = "a real SQLite writer (python sqlite3, spilling and non-spilling transactions) runs under an LD_PRELOAD shim that counts its file operations on the database and journal (write/pwrite, ftruncate, fsync/fdatasync, unlink); for every (quick: every 3rd plus all sync/unlink/truncate boundaries) k in 1..N the writer is re-run on a fresh copy and killed before operation k, and for write operations also after half of the write (torn); then SQLite recovers a COPY of the (database, journal) pair left behind (reference O_k) and sqlittle opens and reads the ORIGINAL pair: every read operation must fail with an error or equal O_k; when the leftover journal is absent, empty or has no valid magic (clean leftover of a completed commit) reading must succeed and equal O_k. distinct = (scenario, k, variant)"
	run.Assumptions = append(stdAssumptions, "crash = process death at a system-call boundary (the page cache survives, as for a killed process); torn writes at half length only", "the journal is classified by reading its first bytes: absent / empty / no magic => clean leftover")
	scs := []c09Scenario{
		{"delete", "spill-insert", 1024, false, false, false},
		{"truncate", "update-many", 512, false, false, false},
		{"persist", "spill-insert", 1024, false, true, false},
		{"delete", "update-many", 1024, true, false, false},                                 // journal sector (4096) larger than the page
		{"delete", "spill-insert+nosync", 1024, false, false, false},                        // synchronous=off: journal header complete from the start, nRec = 0xffffffff
		{"delete", "create-first", 1024, false, false, false},                               // first transaction on a brand-new 0-byte file
		{jmode: "delete", scenario: "alter-spill", ps: 1024},                                // uncommitted schema change spilled into page 1
		{jmode: "truncate", scenario: "update-many", ps: 65536},                             // the largest page size (journal header stores 65536 as is)
		{jmode: "persist", scenario: "update-many", ps: 1024, stale: true, staleSame: true}, // cold journal of the same length seen before the crash
	}
	stride := 3
	if run.Thorough() {
		stride = 1
		scs = nil
		for _, jm := range []string{"delete", "truncate", "persist"} {
			for _, sc := range []string{"spill-insert", "update-many", "delete-freelist", "grow", "two-statements", "small-insert"} {
				for _, ps := range []int{512, 1024, 4096} {
					if (sc == "grow" || sc == "two-statements") && ps == 1024 {
						continue
					}
					scs = append(scs, c09Scenario{jm, sc, ps, ps == 512 && sc != "small-insert", jm == "persist" && ps != 4096, false})
				}
			}
			for _, sc := range []string{"spill-insert+nosync", "update-many+nosync", "two-statements+nosync"} {
				scs = append(scs, c09Scenario{jm, sc, 1024, false, false, false}, c09Scenario{jm, sc, 512, true, false, false})
			}
			scs = append(scs, c09Scenario{jm, "create-first", 512, false, false, false}, c09Scenario{jm, "create-first", 4096, true, false, false})
			scs = append(scs, c09Scenario{jmode: jm, scenario: "alter-spill", ps: 1024}, c09Scenario{jmode: jm, scenario: "alter-spill", ps: 4096},
				c09Scenario{jmode: jm, scenario: "update-many", ps: 65536}, c09Scenario{jmode: jm, scenario: "spill-insert+nosync", ps: 65536},
				c09Scenario{jmode: jm, scenario: "small-insert", ps: 32768})
		}
		scs = append(scs, c09Scenario{jmode: "persist", scenario: "update-many", ps: 1024, stale: true, staleSame: true},
			c09Scenario{jmode: "persist", scenario: "spill-insert", ps: 512, stale: true, staleSame: true},
			c09Scenario{jmode: "persist", scenario: "delete-freelist", ps: 4096, stale: true, staleSame: true})
	}
	dir, cleanup := hx.ScratchDir("C09")
	defer cleanup()
	o := mustOracle(run)
	if o == nil {
		return
	}
	type task struct {
		si      int
		k       int
		variant string
		op      shimOp
	}
	var tasks []task
	bases := make([]string, len(scs))
	for si, sc := range scs {
		bdir := filepath.Join(dir, fmt.Sprintf("base%d", si))
		os.MkdirAll(bdir, 0o755)
		base := filepath.Join(bdir, "v.sqlite")
		// every other scenario uses a database larger than the reader's 100-page cache
		nrows := 250
		if si%2 == 1 {
			nrows = 1600
		}
		if sc.scenario == "create-first" {
			os.WriteFile(base, nil, 0o644)
		} else if err := makeVersionedDB(o, base, sc.ps, nrows); err != nil {
			run.Inconclusive("base db: " + err.Error())
			continue
		}
		params := ""
		if sc.psow0 {
			params = "psow=0"
		}
		if sc.stale {
			first := "small-insert"
			if sc.staleSame {
				first = sc.writerScenario()
			}
			w, err := hx.StartStepper(bdir, base, "persist", first, params, "count", 0, "")
			if err == nil {
				w.Wait()
			}
		}
		bases[si] = base
		// counting run on a copy
		cdir := filepath.Join(dir, fmt.Sprintf("count%d", si))
		os.MkdirAll(cdir, 0o755)
		cp := filepath.Join(cdir, "v.sqlite")
		copyFile(base, cp)
		if _, err := os.Stat(base + "-journal"); err == nil {
			copyFile(base+"-journal", cp+"-journal")
		}
		logp := filepath.Join(cdir, "ops.log")
		w, err := hx.StartStepper(cdir, cp, sc.jmode, sc.writerScenario(), params, "count", 0, logp)
		if err != nil {
			run.Inconclusive("count run: " + err.Error())
			continue
		}
		w.Wait()
		if !w.Finished() {
			run.Inconclusive("count run did not finish: " + clip(w.Stderr.String(), 300))
			continue
		}
		ops := readShimLog(logp)
		if len(ops) < 5 {
			run.Inconclusive(fmt.Sprintf("%s: shim saw only %d operations", sc.name(), len(ops)))
			continue
		}
		run.Count("operations_in_counted_runs", len(ops))
		for i, op := range ops {
			special := op.kind != "write"
			near := (i > 0 && ops[i-1].kind != "write") || (i+1 < len(ops) && ops[i+1].kind != "write")
			if stride == 1 || special || near || i%stride == 0 || i >= len(ops)-3 {
				tasks = append(tasks, task{si, op.k, "kill", op})
				if op.kind == "write" {
					tasks = append(tasks, task{si, op.k, "torn", op})
				}
			}
		}
		// beyond the last operation: no crash at all
		tasks = append(tasks, task{si, len(ops) + 50, "kill", shimOp{len(ops) + 50, "none", "none"}})
	}
	o.Close()
	ch := make(chan task, len(tasks))
	for _, t := range tasks {
		ch <- t
	}
	close(ch)
	var wg sync.WaitGroup
	for wi := 0; wi < nWorkers(); wi++ {
		wg.Add(1)
		go func(wi int) {
			defer wg.Done()
			o, err := hx.StartOracle()
			if err != nil {
				run.Inconclusive("oracle: " + err.Error())
				return
			}
			defer o.Close()
			wdir := filepath.Join(dir, fmt.Sprintf("w%d", wi))
			os.MkdirAll(wdir, 0o755)
			for t := range ch {
				sc := scs[t.si]
				if bases[t.si] == "" {
					continue
				}
				orig := filepath.Join(wdir, "v.sqlite")
				os.Remove(orig)
				os.Remove(orig + "-journal")
				copyFile(bases[t.si], orig)
				if _, err := os.Stat(bases[t.si] + "-journal"); err == nil {
					copyFile(bases[t.si]+"-journal", orig+"-journal")
				}
				params := ""
				if sc.psow0 {
					params = "psow=0"
				}
				// a handle that was opened (and used) while the database was still clean
				long, lerr := sqlittle.Open(orig)
				if lerr == nil {
					readVersioned(long)
				}
				// ... and one that was only opened, never used, before the writer died
				unused, _ := sqlittle.Open(orig)
				w, err := hx.StartStepper(wdir, orig, sc.jmode, sc.writerScenario(), params, t.variant, t.k, "")
				if err != nil {
					run.Inconclusive("crash run: " + err.Error())
					if long != nil {
						long.Close()
					}
					continue
				}
				w.Wait()
				crashed := !w.Finished()
				if t.op.kind != "none" && !crashed {
					// operation numbers can shift between runs; then this k was simply not reached
					run.Count("crash_point_not_reached", 1)
				}
				jc := journalClass(orig + "-journal")
				// reference: SQLite's recovery of a copy
				rec := filepath.Join(wdir, "rec.sqlite")
				os.Remove(rec)
				os.Remove(rec + "-journal")
				_, integ, err := o.Recover(orig, rec)
				if err != nil {
					run.Inconclusive(fmt.Sprintf("%s k=%d %s: SQLite could not recover the pair: %v", sc.name(), t.k, t.variant, err))
					continue
				}
				if len(integ) != 1 || integ[0] != "ok" {
					run.Inconclusive(fmt.Sprintf("%s k=%d: recovered copy fails integrity_check: %v", sc.name(), t.k, integ))
					continue
				}
				want, err := sqliteVersioned(o, rec)
				emptyDB := false
				if err != nil {
					if strings.Contains(err.Error(), "no such table") {
						// SQLite's recovery leaves a database without our tables (first transaction rolled back):
						// nothing may be delivered from it
						emptyDB = true
						want = map[string][]hx.Row{}
					} else {
						run.Inconclusive("reference read of the recovered copy: " + err.Error())
						continue
					}
				}
				// sqlittle on the original pair
				run.Eval(1)
				run.Distinct(fmt.Sprintf("%d/%d/%s", t.si, t.k, t.variant))
				opclass := t.op.kind + "/" + t.op.file
				run.See("crash_before_op", opclass)
				run.See("variant", t.variant)
				run.See("leftover_journal", jc)
				detail := hx.M{"scenario": sc.name(), "k": t.k, "variant": t.variant, "op": opclass, "journal": jc}
				clean := (jc == "absent" || jc == "empty" || jc == "zero-header" || jc == "no-magic") && !emptyDB
				nerr, nok := 0, 0
				func() {
					var db *sqlittle.DB
					var openErr error
					if p, pm := safely(func() { db, openErr = sqlittle.Open(orig) }); p {
						run.Violation("C09/panic/open", "Open panicked: "+pm, detail)
						return
					}
					if openErr != nil {
						if clean {
							run.Violation(fmt.Sprintf("C09/clean-leftover-refused/%s/%s", sc.jmode, jc), fmt.Sprintf("%s, writer killed (%s) before op %d (%s): leftover journal is %s, yet Open failed: %v", sc.name(), t.variant, t.k, opclass, jc, openErr), detail)
						} else {
							run.See("outcome", "refused-at-open")
						}
						return
					}
					view := readVersioned(db)
					db.Close()
					for _, op := range verOps {
						if view.errs[op] != nil {
							nerr++
							if clean {
								run.Violation(fmt.Sprintf("C09/clean-leftover-refused/%s/%s", sc.jmode, jc), fmt.Sprintf("%s, writer killed (%s) before op %d (%s): leftover journal is %s, yet %s failed: %v", sc.name(), t.variant, t.k, opclass, jc, op, view.errs[op]), detail)
							}
							continue
						}
						nok++
						if df := diffRows(want[op], view.ops[op]); df != "" {
							run.Violation(fmt.Sprintf("C09/unfinished-transaction-read/%s/%s/%s", sc.jmode, jc, opKind(op)), fmt.Sprintf("%s, writer killed (%s) before op %d (%s), leftover journal %s: %s succeeded but differs from SQLite's post-recovery state: %s", sc.name(), t.variant, t.k, opclass, jc, op, df), detail)
						}
					}
					switch {
					case nok == len(verOps):
						ver := "?"
						if len(want["Select/meta"]) == 1 {
							ver = fmt.Sprint(want["Select/meta"][0][0])
						}
						run.See("outcome", "read-equals-recovered-version-"+ver)
					case nerr == len(verOps):
						run.See("outcome", "refused-hot-journal")
					default:
						run.See("outcome", "mixed")
					}
				}()
				// the same pair through (a) the handle opened before the crash, (b) a fresh handle while
				// another process holds a read lock on the shared range (a reader, not a writer)
				extra := []struct {
					kind string
					open func() (*sqlittle.DB, func(), error)
				}{
					{"long-lived-handle", func() (*sqlittle.DB, func(), error) {
						if long == nil {
							return nil, nil, fmt.Errorf("no long handle")
						}
						return long, func() {}, nil
					}},
					{"handle-opened-before-crash-never-used", func() (*sqlittle.DB, func(), error) {
						if unused == nil {
							return nil, nil, fmt.Errorf("no handle")
						}
						return unused, func() {}, nil
					}},
					{"fresh-handle-through-symlink", func() (*sqlittle.DB, func(), error) {
						// the database opened under another name: a symbolic link in another directory. SQLite names
						// the journal after the real file, so the hot journal next to the real file still counts.
						ldir := filepath.Join(wdir, "links")
						os.MkdirAll(ldir, 0o755)
						link := filepath.Join(ldir, "alias.sqlite")
						os.Remove(link)
						if err := os.Symlink(orig, link); err != nil {
							return nil, nil, err
						}
						d, err := sqlittle.Open(link)
						if err != nil {
							os.Remove(link)
							return nil, func() {}, errRefusedAtOpen
						}
						return d, func() { d.Close(); os.Remove(link) }, nil
					}},
					{"fresh-handle-through-symlinked-directory", func() (*sqlittle.DB, func(), error) {
						// <links>/dirlink -> <wdir>/sub ; the name <links>/dirlink/../v.sqlite is the real file (the kernel resolves
						// the link before the ..), while a lexical clean-up of the name gives <links>/v.sqlite, which does not exist
						ldir := filepath.Join(wdir, "links")
						os.MkdirAll(ldir, 0o755)
						os.MkdirAll(filepath.Join(wdir, "sub"), 0o755)
						dl := filepath.Join(ldir, "dirlink")
						os.Remove(dl)
						if err := os.Symlink(filepath.Join(wdir, "sub"), dl); err != nil {
							return nil, nil, err
						}
						name := dl + "/../" + filepath.Base(orig)
						d, err := sqlittle.Open(name)
						if err != nil {
							os.Remove(dl)
							return nil, func() {}, errRefusedAtOpen
						}
						return d, func() { d.Close(); os.Remove(dl) }, nil
					}},
					{"fresh-handle-with-foreign-reader", func() (*sqlittle.DB, func(), error) {
						lh, err := hx.StartLockHolder(orig, "shared:RD")
						if err != nil {
							return nil, nil, err
						}
						d, err := sqlittle.Open(orig)
						if err != nil {
							lh.Release()
							return nil, func() {}, errRefusedAtOpen
						}
						return d, func() { d.Close(); lh.Release() }, nil
					}},
				}
				for _, ex := range extra {
					if ex.kind == "fresh-handle-with-foreign-reader" && t.k%4 != 0 && t.op.kind == "write" {
						continue // the foreign-reader variant is sampled (it spawns a process)
					}
					d, done, err := ex.open()
					if err == errRefusedAtOpen {
						run.See("outcome_"+ex.kind, "refused-at-open")
						continue
					}
					if err != nil {
						continue
					}
					// which operation is the first call on the handle rotates with the crash point
					v2 := readVersionedFrom(d, t.k)
					if ex.kind == "handle-opened-before-crash-never-used" {
						run.See("first_call_on_unused_handle", verOps[t.k%len(verOps)])
					}
					// whatever the outcome, a finished call leaves no lock of ours behind
					if ex.kind != "fresh-handle-with-foreign-reader" && !strings.HasPrefix(ex.kind, "fresh-handle-through-") {
						if locks, err := hx.FileLocks(orig); err == nil {
							for _, l := range locks {
								if l.Pid == os.Getpid() {
									run.Violation("C09/lock-left-behind/"+ex.kind, fmt.Sprintf("%s, leftover journal %s: after reading through a %s (errors: %v) this process still holds a lock %+v on the database", sc.name(), jc, ex.kind, v2.errs["Select/t"], l), detail)
									break
								}
							}
						}
					}
					done()
					run.Eval(1)
					ok2, err2 := 0, 0
					for _, op := range verOps {
						if v2.errs[op] != nil {
							err2++
							if clean {
								run.Violation(fmt.Sprintf("C09/clean-leftover-refused/%s/%s/%s", ex.kind, sc.jmode, jc), fmt.Sprintf("%s, writer killed (%s) before op %d (%s): leftover journal is %s, yet %s (%s) failed: %v", sc.name(), t.variant, t.k, opclass, jc, op, ex.kind, v2.errs[op]), detail)
							}
							continue
						}
						ok2++
						if df := diffRows(want[op], v2.ops[op]); df != "" {
							run.Violation(fmt.Sprintf("C09/unfinished-transaction-read/%s/%s/%s", ex.kind, jc, opKind(op)), fmt.Sprintf("%s, writer killed (%s) before op %d (%s), leftover journal %s: %s through a %s succeeded but differs from SQLite's post-recovery state: %s", sc.name(), t.variant, t.k, opclass, jc, op, ex.kind, df), detail)
						}
					}
					if ok2 == len(verOps) {
						run.See("outcome_"+ex.kind, "read-equals-recovered")
					} else if err2 == len(verOps) {
						run.See("outcome_"+ex.kind, "refused")
					} else {
						run.See("outcome_"+ex.kind, "mixed")
					}
				}
				// the same leftover with the journal re-laid for a smaller sector size (a writer on a VFS that reports
				// 256- or 64-byte sectors writes its journal like that, and SQLite - any SQLite - takes the sector size from
				// the journal header when it recovers). Only single-header journals (synchronous=off) are re-laid.
				if jc == "magic-present" && strings.Contains(sc.scenario, "+nosync") && (t.k%8 == 0 || run.Thorough()) {
					if jb, err := os.ReadFile(orig + "-journal"); err == nil && len(jb) > 512+8 && binary.BigEndian.Uint32(jb[20:24]) == 512 {
						// ... and for larger ones: 65536 is the largest SQLite takes, and does not fit 16 bits
						sizes := [][]int{{256, 65536}, {64, 8192}}[(t.k/8)%2]
						if run.Thorough() {
							sizes = []int{256, 64, 32, 1024, 8192, 65536}
						}
						for _, ss := range sizes {
							vdb := filepath.Join(wdir, fmt.Sprintf("sector%d.sqlite", ss))
							os.Remove(vdb)
							os.Remove(vdb + "-journal")
							copyFile(orig, vdb)
							nj := make([]byte, ss, ss+len(jb))
							copy(nj, jb[:28])
							binary.BigEndian.PutUint32(nj[20:24], uint32(ss))
							nj = append(nj, jb[512:]...)
							os.WriteFile(vdb+"-journal", nj, 0o644)
							vrec := filepath.Join(wdir, "sector-rec.sqlite")
							os.Remove(vrec)
							os.Remove(vrec + "-journal")
							if _, integ, err := o.Recover(vdb, vrec); err != nil || len(integ) != 1 || integ[0] != "ok" {
								run.Count(fmt.Sprintf("sector_%d_variant_not_recoverable_by_sqlite", ss), 1)
								continue
							}
							vwant, err := sqliteVersioned(o, vrec)
							if err != nil {
								continue
							}
							run.Eval(1)
							run.See("journal_sector_size", fmt.Sprint(ss))
							if d, err := sqlittle.Open(vdb); err == nil {
								v3 := readVersioned(d)
								d.Close()
								for _, op := range verOps {
									if v3.errs[op] != nil {
										continue
									}
									if df := diffRows(vwant[op], v3.ops[op]); df != "" {
										run.Violation(fmt.Sprintf("C09/unfinished-transaction-read/journal-sector-%d/%s", ss, opKind(op)), fmt.Sprintf("%s, writer killed before op %d: the hot journal re-laid for %d-byte sectors (which SQLite recovers from): %s succeeded but differs from SQLite's post-recovery state: %s", sc.name(), t.k, ss, op, df), detail)
										break
									}
								}
							}
						}
					}
				}
				if long != nil {
					long.Close()
				}
				if unused != nil {
					unused.Close()
				}
				if t.k%11 == 0 || t.op.kind != "write" {
					run.Sample(hx.M{"scenario": sc.name(), "k": t.k, "variant": t.variant, "op": opclass, "journal_left": jc, "ops_ok": nok, "ops_refused": nerr})
				}
			}
		}(wi)
	}
	wg.Wait()
	c09LiveThenCrash(run, dir)
	c09ShortJournals(run, dir)
	run.Count("scenarios", len(scs))
	if run.Seen("outcome", "refused-hot-journal") == 0 && run.Seen("outcome", "refused-at-open") == 0 {
		run.Inconclusive("no crash point left a hot journal: the enumeration did not reach the interesting window")
	}
}

// c09LiveThenCrash: the reader's handle is not new to the transaction that dies. It read while the writer was
// alive (journal on disk, RESERVED or more held: some of these reads succeed, some are refused), the writer is
// then killed at one of its later operations, and the SAME handle reads again: error, or SQLite's recovered state.
// Whatever the handle remembered about "a live writer owns that journal" is void once the writer is dead.
func c09LiveThenCrash(run *hx.Run, dir string) {
	o := mustOracle(run)
	if o == nil {
		return
	}
	defer o.Close()
	type lc struct {
		jmode, scenario string
		ps              int
	}
	cases := []lc{{"delete", "spill-insert+nosync", 1024}, {"persist", "update-many+nosync", 512}, {"delete", "spill-insert", 1024}, {"truncate", "small-insert+nosync", 4096}}
	if run.Thorough() {
		for _, jm := range []string{"delete", "truncate", "persist"} {
			for _, sc := range []string{"spill-insert+nosync", "update-many+nosync", "two-statements+nosync", "spill-insert", "update-many", "small-insert+nosync", "alter-spill"} {
				cases = append(cases, lc{jm, sc, []int{512, 1024, 4096}[len(cases)%3]})
			}
		}
	}
	for ci, c := range cases {
		for _, after := range []int{2, 9, 30} { // kill at the n-th stop after the journal first looked valid
			sdir := filepath.Join(dir, fmt.Sprintf("live%d-%d", ci, after))
			os.MkdirAll(sdir, 0o755)
			orig := filepath.Join(sdir, "v.sqlite")
			if err := makeVersionedDB(o, orig, c.ps, 1600); err != nil {
				run.Inconclusive("live-then-crash db: " + err.Error())
				return
			}
			name := fmt.Sprintf("%s/%s/ps%d/kill-%d-stops-after-journal", c.jmode, c.scenario, c.ps, after)
			h, err := sqlittle.Open(orig)
			if err != nil {
				run.Violation("C09/live-then-crash/open", err.Error(), nil)
				continue
			}
			readVersioned(h)
			// a second handle that reads now and not again until the writer is dead; and one transaction that
			// commits in between: what this handle has cached is then TWO states behind what recovery leaves
			blind, _ := sqlittle.Open(orig)
			if blind != nil {
				readVersioned(blind)
				if err := o.Exec(orig, "UPDATE t SET pad = pad || '+' WHERE id % 3 = 0", "UPDATE meta SET version = version + 1000"); err != nil {
					blind.Close()
					blind = nil
				}
			}
			closeBlind := func() {
				if blind != nil {
					blind.Close()
				}
			}
			st, err := hx.StartStepper(sdir, orig, c.jmode, c.scenario, "", "step", 1, "")
			if err != nil {
				run.Inconclusive("live-then-crash stepper: " + err.Error())
				h.Close()
				closeBlind()
				continue
			}
			sinceMagic := -1
			liveOK, liveRefused := 0, 0
			killed := false
			stops := 0
			for {
				_, ok := st.Next()
				if !ok {
					break
				}
				stops++
				if journalClass(orig+"-journal") == "magic-present" {
					if sinceMagic < 0 {
						sinceMagic = 0
					} else {
						sinceMagic++
					}
					// the handle meets the live transaction
					v := readVersionedFrom(h, stops)
					if v.errs["Select/t"] == nil {
						liveOK++
					} else {
						liveRefused++
					}
					if sinceMagic >= after {
						st.KillAtStop()
						killed = true
						break
					}
				}
				if stops > 3000 {
					st.Go()
					break
				}
				st.Release()
			}
			st.Wait()
			st.Close()
			if !killed {
				run.Count("live_then_crash_kill_point_not_reached", 1)
				h.Close()
				closeBlind()
				continue
			}
			jc := journalClass(orig + "-journal")
			rec := filepath.Join(sdir, "rec.sqlite")
			_, integ, err := o.Recover(orig, rec)
			if err != nil || len(integ) != 1 || integ[0] != "ok" {
				run.Inconclusive(fmt.Sprintf("%s: SQLite could not recover the pair: %v %v", name, err, integ))
				h.Close()
				closeBlind()
				continue
			}
			want, err := sqliteVersioned(o, rec)
			if err != nil {
				run.Inconclusive("live-then-crash reference: " + err.Error())
				h.Close()
				closeBlind()
				continue
			}
			run.Eval(1)
			run.Distinct("live-then-crash/" + name)
			run.See("live_then_crash", fmt.Sprintf("%s/%s: reads during the transaction ok=%v refused=%v, journal left %s", c.jmode, c.scenario, liveOK > 0, liveRefused > 0, jc))
			for round := 0; round < 2; round++ {
				v := readVersionedFrom(h, stops+round)
				for _, op := range verOps {
					if v.errs[op] != nil {
						continue
					}
					if df := diffRows(want[op], v.ops[op]); df != "" {
						run.Violation(fmt.Sprintf("C09/unfinished-transaction-read/handle-that-read-during-the-transaction/%s/%s", jc, opKind(op)), fmt.Sprintf("%s: the handle read %d times while the writer was alive (%d admitted, %d refused); the writer was killed; %s on that handle now succeeds but differs from SQLite's post-recovery state: %s", name, liveOK+liveRefused, liveOK, liveRefused, op, df), hx.M{"scenario": name, "journal": jc})
					}
				}
			}
			// the handle that has not read since before the last commit: refused, or the recovered state
			handles := []struct {
				name string
				db   *sqlittle.DB
			}{{"handle-that-read-during-the-transaction", h}}
			if blind != nil {
				handles = append(handles, struct {
					name string
					db   *sqlittle.DB
				}{"handle-that-last-read-two-states-ago", blind})
				v := readVersionedFrom(blind, stops)
				nref := 0
				for _, op := range verOps {
					if v.errs[op] != nil {
						nref++
						continue
					}
					if df := diffRows(want[op], v.ops[op]); df != "" {
						run.Violation(fmt.Sprintf("C09/unfinished-transaction-read/handle-that-last-read-two-states-ago/%s/%s", jc, opKind(op)), fmt.Sprintf("%s: the handle last read before the previous commit; the writer of the next transaction was killed; %s on that handle succeeds but differs from SQLite's post-recovery state: %s", name, op, df), hx.M{"scenario": name, "journal": jc})
					}
				}
				run.See("blind_handle_after_crash", map[bool]string{true: "refused", false: "read"}[nref > 0])
			}
			// SQLite recovers the ORIGINAL pair in place; both handles go on: the recovered state, nothing remembered
			// from before (the refused read in between must not have updated half of the handle's bookkeeping)
			if _, err := o.Query(orig, "SELECT count(*) FROM t"); err == nil {
				if want2, err := sqliteVersioned(o, orig); err == nil {
					for _, hd := range handles {
						v := readVersionedFrom(hd.db, stops+1)
						run.Eval(1)
						for _, op := range verOps {
							if v.errs[op] != nil {
								run.Violation(fmt.Sprintf("C09/after-recovery/%s/error/%s", hd.name, opKind(op)), fmt.Sprintf("%s: SQLite rolled the hot journal back in place; %s on the %s still fails: %v", name, op, hd.name, v.errs[op]), hx.M{"scenario": name})
								break
							}
							if df := diffRows(want2[op], v.ops[op]); df != "" {
								run.Violation(fmt.Sprintf("C09/after-recovery/%s/stale/%s", hd.name, opKind(op)), fmt.Sprintf("%s: SQLite rolled the hot journal back in place; %s on the %s differs from what SQLite reads now: %s", name, op, hd.name, df), hx.M{"scenario": name})
								break
							}
						}
						run.See("after_in_place_recovery", hd.name+": read")
					}
				}
			}
			h.Close()
			closeBlind()
		}
	}
}

// c09ShortJournals: "journals that are ... truncated after a completed commit do not prevent reading". SQLite
// itself leaves journals shorter than a header (journal_mode=PERSIST with a journal_size_limit below 28 bytes);
// plus synthetic leftovers of 1..600 bytes, all zero or starting like a journal header. Reference: what SQLite reads
// after its own recovery of a copy. A leftover without the magic must be read; one with it is refused or read
// as SQLite reads it.
func c09ShortJournals(run *hx.Run, dir string) {
	o := mustOracle(run)
	if o == nil {
		return
	}
	defer o.Close()
	sdir := filepath.Join(dir, "shortj")
	os.MkdirAll(sdir, 0o755)
	base := filepath.Join(sdir, "base.sqlite")
	mk := func(path string, limit int) error {
		return o.Exec(path, "PRAGMA journal_mode=PERSIST", fmt.Sprintf("PRAGMA journal_size_limit=%d", limit),
			"CREATE TABLE t(a INTEGER PRIMARY KEY, b)", "INSERT INTO t VALUES(1,'one'),(2,'two'),(3,'three')", "UPDATE t SET b=b||'!' WHERE a=2")
	}
	if err := mk(base, -1); err != nil {
		run.Inconclusive("short-journal base: " + err.Error())
		return
	}
	check := func(name, path string, mustRead bool) {
		rec := filepath.Join(sdir, "rec.sqlite")
		os.Remove(rec)
		os.Remove(rec + "-journal")
		tabs, _, err := o.Recover(path, rec)
		if err != nil {
			run.See("short_journal", name+": SQLite refuses the pair")
			return
		}
		_ = tabs
		want, err := o.Query(rec, "SELECT a, b FROM t ORDER BY a")
		if err != nil {
			run.See("short_journal", name+": SQLite cannot read its recovered copy")
			return
		}
		run.Eval(1)
		run.Distinct("short-journal/" + name)
		var got []hx.Row
		var gerr error
		p, pm := safely(func() {
			var d *sqlittle.DB
			if d, gerr = sqlittle.Open(path); gerr == nil {
				got, gerr, _ = collectSelect(d, "t", []string{"a", "b"})
				d.Close()
			}
		})
		switch {
		case p:
			run.Violation("C09/short-journal/panic", name+": "+firstLines(pm, 2), nil)
		case gerr != nil && mustRead:
			run.Violation("C09/short-journal/refused", fmt.Sprintf("journal left as %s (no journal header in it; SQLite reads the database, %d rows): sqlittle fails: %v", name, len(want), gerr), nil)
		case gerr != nil:
			run.See("short_journal", name+": refused")
		case diffRows(want, got) != "":
			run.Violation("C09/short-journal/rows", fmt.Sprintf("journal left as %s: read succeeded but differs from what SQLite reads: %s", name, diffRows(want, got)), nil)
		default:
			run.See("short_journal", name+": read, equal")
		}
	}
	// what SQLite leaves
	for _, limit := range []int{0, 1, 8, 16, 27, 28, 100, 600} {
		pth := filepath.Join(sdir, fmt.Sprintf("limit%d.sqlite", limit))
		if err := mk(pth, limit); err != nil {
			continue
		}
		st, err := os.Stat(pth + "-journal")
		if err != nil {
			run.See("short_journal_left_by_sqlite", "none")
			continue
		}
		run.See("short_journal_left_by_sqlite", fmt.Sprintf("%d bytes", st.Size()))
		check(fmt.Sprintf("sqlite-persist-limit-%d(%dB)", limit, st.Size()), pth, journalClass(pth+"-journal") != "magic-present")
	}
	// synthetic
	hdr := make([]byte, 600)
	copy(hdr, journalMagic)
	binary.BigEndian.PutUint32(hdr[8:], 0xffffffff)
	binary.BigEndian.PutUint32(hdr[12:], 12345)
	binary.BigEndian.PutUint32(hdr[16:], 2)
	binary.BigEndian.PutUint32(hdr[20:], 512)
	binary.BigEndian.PutUint32(hdr[24:], 4096)
	for _, n := range []int{1, 3, 7, 8, 9, 12, 16, 20, 24, 27, 28, 29, 100, 511, 512, 600} {
		for _, kind := range []string{"zeros", "header-prefix"} {
			pth := filepath.Join(sdir, fmt.Sprintf("syn-%s-%d.sqlite", kind, n))
			copyFile(base, pth)
			j := make([]byte, n)
			if kind == "header-prefix" {
				copy(j, hdr)
			}
			os.WriteFile(pth+"-journal", j, 0o644)
			check(fmt.Sprintf("%s-%dB", kind, n), pth, journalClass(pth+"-journal") != "magic-present")
		}
	}
}
