//go:build verif

package props

import (
	"fmt"
	"os"
	"path/filepath"
	"strings"
	"sync"

	"github.com/alicebob/sqlittle"

	"verifharness/hx"
)

func init() { register("C07", "exploration", C07) }

// versioned test database: every write transaction bumps meta.version and
// stamps the rows it touches.
func makeVersionedDB(o *hx.Oracle, path string, pageSize, rows int) error {
	os.Remove(path)
	os.Remove(path + "-journal")
	stmts := []string{
		fmt.Sprintf("PRAGMA page_size=%d", pageSize),
		"CREATE TABLE meta(version INTEGER)",
		"INSERT INTO meta VALUES(0)",
		"CREATE TABLE t(id INTEGER PRIMARY KEY, v, ver INTEGER, pad TEXT)",
		"CREATE INDEX ix_t_v ON t(v)",
		fmt.Sprintf("WITH RECURSIVE c(i) AS (SELECT 1 UNION ALL SELECT i+1 FROM c WHERE i < %d) INSERT INTO t(id, v, ver, pad) SELECT i, (i*7919) %% 1000, 0, 'row' || i || substr('xxxxxxxxxxxxxxxxxxxxxxxxxxxxxxxxxxxxxxxxxxxxxxxxxxxxxxxxxxxxxxxxxxxxxxxxxxxxxxxx', 1, i %% 80) FROM c", rows),
	}
	return o.Exec(path, stmts...)
}

// verView is what a reader sees: results of a fixed set of read operations.
type verView struct {
	ops  map[string][]hx.Row
	errs map[string]error
	rows int
}

var verOps = []string{"Select/t", "Select/meta", "IndexedSelect/t/ix_t_v", "SelectRowid/t/5", "PKSelect/t/7", "Columns/t", "IndexedSelectEq/t/ix_t_v"}

// readVersioned runs every read operation on the handle.
func readVersioned(db *sqlittle.DB) verView { return readVersionedFrom(db, 0) }

// readVersionedFrom runs every read operation on the handle, starting with operation number `first`
// of verOps (which call comes first on a handle matters for state that the first call sets up).
func readVersionedFrom(db *sqlittle.DB, first int) verView {
	v := verView{ops: map[string][]hx.Row{}, errs: map[string]error{}}
	cols := []string{"rowid", "id", "v", "ver", "pad"}
	rec := func(name string, rows []hx.Row, err error, pm string) {
		if pm != "" {
			err = fmt.Errorf("PANIC: %s", pm)
		}
		v.ops[name] = rows
		v.errs[name] = err
		v.rows += len(rows)
	}
	run1 := func(name string) {
		switch name {
		case "Select/t":
			r, e, pm := collectSelect(db, "t", cols)
			rec(name, r, e, pm)
		case "Select/meta":
			r, e, pm := collectSelect(db, "meta", []string{"version"})
			rec(name, r, e, pm)
		case "IndexedSelect/t/ix_t_v":
			r, e, pm := collectIndexed(db, "t", "ix_t_v", cols)
			rec(name, r, e, pm)
		case "SelectRowid/t/5":
			var rows []hx.Row
			var row sqlittle.Row
			var err error
			p, pm := safely(func() { row, err = db.SelectRowid("t", 5, cols...) })
			if row != nil {
				rows = append(rows, hx.CloneRow(row))
			}
			if !p {
				pm = ""
			}
			rec(name, rows, err, pm)
		case "PKSelect/t/7":
			r, e, pm := collectPK(db, "t", sqlittle.Key{int64(7)}, cols)
			rec(name, r, e, pm)
		case "Columns/t":
			var rows []hx.Row
			var cs []string
			var err error
			p, pm := safely(func() { cs, err = db.Columns("t") })
			for _, c := range cs {
				rows = append(rows, hx.Row{c})
			}
			if !p {
				pm = ""
			}
			rec(name, rows, err, pm)
		case "IndexedSelectEq/t/ix_t_v":
			r, e, pm := collectIndexedEq(db, "t", "ix_t_v", sqlittle.Key{int64(919)}, cols)
			rec(name, r, e, pm)
		}
	}
	n := len(verOps)
	for i := 0; i < n; i++ {
		run1(verOps[((first%n)+n+i)%n])
	}
	return v
}

// sqliteVersioned asks SQLite for the same results.
func sqliteVersioned(o *hx.Oracle, path string) (map[string][]hx.Row, error) {
	out := map[string][]hx.Row{}
	qs := map[string]string{
		"Select/t":                 "SELECT rowid, id, v, ver, pad FROM t ORDER BY rowid",
		"Select/meta":              "SELECT version FROM meta ORDER BY rowid",
		"IndexedSelect/t/ix_t_v":   "SELECT rowid, id, v, ver, pad FROM t ORDER BY v, rowid",
		"SelectRowid/t/5":          "SELECT rowid, id, v, ver, pad FROM t WHERE rowid = 5",
		"PKSelect/t/7":             "SELECT rowid, id, v, ver, pad FROM t WHERE rowid = 7",
		"Columns/t":                "SELECT name FROM pragma_table_info('t') ORDER BY cid",
		"IndexedSelectEq/t/ix_t_v": "SELECT rowid, id, v, ver, pad FROM t WHERE +v IS 919 ORDER BY v, rowid",
	}
	for k, q := range qs {
		r, err := o.Query(path, q)
		if err != nil {
			return nil, err
		}
		out[k] = r
	}
	return out, nil
}

type c07Scenario struct {
	jmode    string
	scenario string
	ps       int
	stale    bool // stale PERSIST journal from an earlier commit present
	reader   bool // a third process holds SHARED during the commit (PENDING window)
}

func C07(run *hx.Run) {
	run.Rule = "a real SQLite writer process (python sqlite3) is frozen by an LD_PRELOAD shim before EVERY file and lock operation of its transaction (journal writes/syncs, database writes, truncate/unlink, every fcntl lock request); at each frozen point the writer's actual lock state is read from /proc/locks and every read operation (Select, IndexedSelect, IndexedSelectEq, SelectRowid, PKSelect, Columns) runs on a fresh handle and on a long-lived handle: PENDING/EXCLUSIVE => every operation must fail with zero rows; otherwise every operation must succeed and equal what SQLite itself reads from another process at that moment (the last committed state). Free-running phase: the same writer kind commits and rolls back a stream of transactions at full speed while reader processes (one handle each, long-lived and periodically reopened) read at full speed; the database content is a pure function of the committed version, so every successful read is checked completely: exactly the state of ONE version (no torn snapshot), not older than the last COMMIT that had returned before the call, not newer than the last transaction started, never a row of a rolled-back transaction (bounds from counters in shared memory, not wall-clock). Configurations: journal modes DELETE/TRUNCATE/PERSIST, spilling and non-spilling transactions, stale PERSIST journal, page sizes, and a third process holding SHARED so the writer sits in PENDING without EXCLUSIVE. distinct = (scenario, frozen point, handle kind); non-trivial = all (each is a different point of the writer's protocol)"
	run.Assumptions = append(stdAssumptions, "/proc/locks reports POSIX locks truthfully", "expected outcomes are derived from the observed lock state, never from the operation number")
	scs := []c07Scenario{
		{"delete", "spill-insert", 1024, false, false},
		{"truncate", "small-insert-immediate", 4096, false, false},
		{"persist", "update-many", 512, true, false},
		{"delete", "pending", 1024, false, true},
		{"delete", "small-insert+nosync", 1024, false, false},
		{"persist", "spill-insert+nosync", 512, false, false},
		{"delete", "alter-spill", 1024, false, false},
	}
	if run.Thorough() {
		for _, jm := range []string{"delete", "truncate", "persist"} {
			for _, sc := range []string{"spill-insert", "small-insert", "update-many", "delete-freelist", "grow", "two-statements", "small-insert-immediate", "alter-spill"} {
				for _, ps := range []int{512, 1024, 4096, 65536} {
					if ps == 65536 && sc != "small-insert" && sc != "update-many" {
						continue
					}
					scs = append(scs, c07Scenario{jm, sc, ps, jm == "persist" && ps == 512, false})
				}
			}
			scs = append(scs, c07Scenario{jm, "pending", 4096, false, true})
			scs = append(scs, c07Scenario{jm, "small-insert+nosync", 1024, false, false}, c07Scenario{jm, "two-statements+nosync", 512, false, false})
		}
	}
	dir, cleanup := hx.ScratchDir("C07")
	defer cleanup()
	jobs := make(chan int, len(scs))
	for i := range scs {
		jobs <- i
	}
	close(jobs)
	var wg sync.WaitGroup
	nw := nWorkers()
	if nw > 8 {
		nw = 8
	}
	for wi := 0; wi < nw; wi++ {
		wg.Add(1)
		go func(wi int) {
			defer wg.Done()
			o, err := hx.StartOracle()
			if err != nil {
				run.Inconclusive("oracle: " + err.Error())
				return
			}
			defer o.Close()
			o2, err := hx.StartOracle()
			if err != nil {
				run.Inconclusive("oracle: " + err.Error())
				return
			}
			defer o2.Close()
			for i := range jobs {
				sdir := filepath.Join(dir, fmt.Sprintf("s%d", i))
				os.MkdirAll(sdir, 0o755)
				c07Run(run, o, o2, sdir, i, scs[i])
			}
		}(wi)
	}
	wg.Wait()
	if run.Thorough() {
		c07Stress(run, 2500, 8)
	} else {
		c07Stress(run, 150, 6)
	}
	for _, st := range []string{"RESERVED", "EXCLUSIVE", "PENDING", "SHARED", "UNLOCKED"} {
		if run.Seen("writer_lock_state", st) == 0 {
			run.Inconclusive("writer was never observed in state " + st)
		}
	}
}

func c07Run(run *hx.Run, o, o2 *hx.Oracle, sdir string, idx int, sc c07Scenario) {
	path := filepath.Join(sdir, "v.sqlite")
	name := fmt.Sprintf("%s/%s/ps%d", sc.jmode, sc.scenario, sc.ps)
	if sc.stale {
		name += "/stale-journal"
	}
	if err := makeVersionedDB(o, path, sc.ps, 250); err != nil {
		run.Inconclusive("db: " + err.Error())
		return
	}
	if sc.stale {
		w, err := hx.StartStepper(sdir, path, "persist", "small-insert", "", "count", 0, "")
		if err != nil {
			run.Inconclusive("stale journal writer: " + err.Error())
			return
		}
		w.Wait()
		if fi, err := os.Stat(path + "-journal"); err != nil || fi.Size() == 0 {
			run.Count("stale_journal_not_left", 1)
		}
	}
	long, err := sqlittle.Open(path)
	if err != nil {
		run.Violation("C07/open-before-writer", "Open failed before any writer: "+err.Error(), nil)
		return
	}
	defer long.Close()
	// the long-lived handle reads once (filling its caches), then another connection commits
	// a change; the stepped writer's transaction below is the NEXT one. Whatever state the
	// writer is frozen in, the handle must show this committed change, not what it cached.
	// a third handle also reads now, and then stays idle until the writer sits in RESERVED with a
	// journal on disk: its first read after T1 happens in exactly that state
	idle, ierr := sqlittle.Open(path)
	if ierr == nil {
		defer idle.Close()
		readVersioned(idle)
	}
	idleUsed := false
	if v := readVersioned(long); v.errs["Select/t"] != nil {
		run.Violation("C07/first-read", fmt.Sprintf("%s: first read failed: %v", name, v.errs["Select/t"]), nil)
		return
	}
	if err := o.Exec(path, "UPDATE t SET ver = -1, pad = pad || 'T1' WHERE (id % 2) = 0", "INSERT INTO t(v, ver, pad) VALUES(919, -1, 'committed before the stepped transaction')"); err != nil {
		run.Inconclusive("T1 commit: " + err.Error())
		return
	}
	if sc.reader {
		if err := o2.Open("rdr", path, 0); err != nil {
			run.Inconclusive("reader conn: " + err.Error())
			return
		}
		defer o2.CloseConn("rdr")
		if err := o2.ExecConn("rdr", "BEGIN"); err != nil {
			run.Inconclusive("reader begin: " + err.Error())
			return
		}
		if _, err := o2.QueryConn("rdr", "SELECT count(*) FROM t"); err != nil {
			run.Inconclusive("reader select: " + err.Error())
			return
		}
	}
	st, err := hx.StartStepper(sdir, path, sc.jmode, sc.scenario, "", "step", 1, "")
	if err != nil {
		run.Inconclusive("stepper: " + err.Error())
		return
	}
	defer st.Close()
	pendingSeen := 0
	readerReleased := !sc.reader
	points := 0
	for {
		ev, ok := st.Next()
		if !ok {
			break
		}
		points++
		locks, err := hx.FileLocks(path)
		if err != nil {
			run.Inconclusive("/proc/locks: " + err.Error())
			st.Go()
			break
		}
		ws := hx.StateOf(locks, st.Pid)
		journal := "no-journal"
		if fi, err := os.Stat(path + "-journal"); err == nil {
			if fi.Size() > 0 {
				journal = "journal-on-disk"
			} else {
				journal = "empty-journal"
			}
		}
		if journal == "journal-on-disk" {
			journal = "journal-" + journalClass(path+"-journal")
		}
		run.See("writer_lock_state", ws.String())
		run.See("frozen_point_class", ws.String()+"/"+journal)
		run.See("writer_next_op", ev.Kind+"/"+ev.File)
		// what SQLite itself sees now (only meaningful when readers are admitted)
		var want map[string][]hx.Row
		if !ws.BlocksReaders() {
			want, err = sqliteVersioned(o, path)
			if err != nil && strings.Contains(err.Error(), "locked") {
				// the reference reader itself is refused at this point (it wants to roll a journal back while the
				// scenario's foreign reader holds SHARED): there is no reference to compare with, the point is skipped
				run.Count("frozen_points_skipped_reference_reader_refused", 1)
				st.Release()
				continue
			}
			if err != nil {
				run.Inconclusive(fmt.Sprintf("%s point %d (%s, %s): SQLite itself cannot read: %v", name, points, ws, journal, err))
				st.Go()
				break
			}
		}
		kinds := []string{"fresh", "long"}
		if idle != nil && !idleUsed && ws.Reserved && !ws.BlocksReaders() && strings.HasPrefix(journal, "journal-") {
			kinds = append(kinds, "idle-since-before-last-commit")
			idleUsed = true
		}
		for _, kind := range kinds {
			var db *sqlittle.DB
			var openErr error
			if kind == "idle-since-before-last-commit" {
				db = idle
			} else if kind == "fresh" {
				if p, pm := safely(func() { db, openErr = sqlittle.Open(path) }); p {
					run.Violation("C07/panic/open", "Open panicked: "+pm, nil)
					continue
				}
			} else {
				db = long
			}
			run.Eval(1)
			run.Distinct(fmt.Sprintf("%d/%d/%s", idx, points, kind))
			detail := hx.M{"scenario": name, "frozen_before": ev.String(), "writer_state": ws.String(), "journal": journal, "handle": kind}
			if openErr != nil {
				if !ws.BlocksReaders() {
					run.Violation(fmt.Sprintf("C07/refused-while-readable/%s/%s/%s/Open", ws, journal, kind), fmt.Sprintf("%s: writer is %s (%s) before %s; Open failed: %v - readers must be admitted and see the last committed state", name, ws, journal, ev, openErr), detail)
				} else {
					run.See("outcome", "refused-at-open")
				}
				continue
			}
			view := readVersioned(db)
			if kind == "fresh" {
				db.Close()
			}
			if ws.BlocksReaders() {
				for _, op := range verOps {
					if view.errs[op] == nil || len(view.ops[op]) > 0 {
						run.Violation(fmt.Sprintf("C07/read-while-%s/%s", ws, opKind(op)), fmt.Sprintf("%s: writer holds %s (%s), stopped before %s; %s on a %s handle returned err=%v with %d rows", name, ws, journal, ev, op, kind, view.errs[op], len(view.ops[op])), detail)
					}
				}
				run.See("outcome", "refused/"+ws.String())
			} else {
				for _, op := range verOps {
					if view.errs[op] != nil {
						run.Violation(fmt.Sprintf("C07/refused-while-readable/%s/%s/%s/%s", ws, journal, kind, opKind(op)), fmt.Sprintf("%s: writer is %s (%s), stopped before %s; %s on a %s handle failed: %v", name, ws, journal, ev, op, kind, view.errs[op]), detail)
					} else if df := diffRows(want[op], view.ops[op]); df != "" {
						run.Violation(fmt.Sprintf("C07/not-last-committed/%s/%s", ws, opKind(op)), fmt.Sprintf("%s: writer is %s (%s), stopped before %s; %s on a %s handle differs from SQLite's view: %s", name, ws, journal, ev, op, kind, df), detail)
					}
				}
				run.See("outcome", "read-ok/"+ws.String())
			}
		}
		if sc.reader && ws.PendingWr && !ws.Exclusive {
			pendingSeen++
			if pendingSeen >= 4 && !readerReleased {
				o2.ExecConn("rdr", "COMMIT")
				readerReleased = true
			}
		}
		if points > 3000 {
			run.Inconclusive(name + ": writer did not finish within 3000 operations")
			st.Go()
			break
		}
		st.Release()
	}
	if !readerReleased {
		o2.ExecConn("rdr", "COMMIT")
	}
	st.Wait()
	if !st.Finished() {
		run.Inconclusive(fmt.Sprintf("%s: writer did not complete: %s", name, clip(st.Stderr.String(), 300)))
		return
	}
	// after the writer is gone: the new version must be visible on both handles
	want, err := sqliteVersioned(o, path)
	if err != nil {
		run.Inconclusive("final reference: " + err.Error())
		return
	}
	for _, kind := range []string{"fresh", "long"} {
		db := long
		if kind == "fresh" {
			db, err = sqlittle.Open(path)
			if err != nil {
				run.Violation("C07/after-commit/open/"+sc.jmode, fmt.Sprintf("%s: Open after the writer finished: %v", name, err), nil)
				continue
			}
		}
		view := readVersioned(db)
		if kind == "fresh" {
			db.Close()
		}
		run.Eval(1)
		for _, op := range verOps {
			if view.errs[op] != nil {
				run.Violation(fmt.Sprintf("C07/after-commit/error/%s/%s", sc.jmode, opKind(op)), fmt.Sprintf("%s: after the writer finished, %s (%s handle) failed: %v", name, op, kind, view.errs[op]), nil)
			} else if df := diffRows(want[op], view.ops[op]); df != "" {
				run.Violation(fmt.Sprintf("C07/after-commit/stale/%s/%s", kind, opKind(op)), fmt.Sprintf("%s: after the writer finished, %s (%s handle) differs from SQLite: %s", name, op, kind, df), nil)
			}
		}
	}
	if len(want["Select/meta"]) == 1 {
		if v, _ := want["Select/meta"][0][0].(int64); v < 1 {
			run.Inconclusive(name + ": the writer's transaction did not commit a new version")
		}
	}
	run.Count("frozen_points", points)
	run.Count("scenarios", 1)
	run.Sample(hx.M{"scenario": name, "frozen_points": points, "pending_without_exclusive_points": pendingSeen})
}
