//go:build verif

package props

import (
	"encoding/binary"
	"fmt"
	"os"
	"os/exec"
	"path/filepath"
	"strings"
	"sync"

	"github.com/alicebob/sqlittle"
	sdb "github.com/alicebob/sqlittle/db"

	"verifharness/hx"
)

func init() { register("C15", "exploration", C15) }

// headerClass says what the property demands for header byte off set to val
// (all other bytes as in the valid base header).
func headerClass(off int, val byte, base []byte) string {
	if val == base[off] {
		return "accept"
	}
	switch {
	case off < 16:
		return "refuse" // magic
	case off == 16 || off == 17:
		h := append([]byte{}, base[16:18]...)
		h[off-16] = val
		s := int(binary.BigEndian.Uint16(h))
		if s == 1 {
			s = 65536
		}
		legal := s >= 512 && s <= 65536 && s&(s-1) == 0
		if !legal {
			return "refuse"
		}
		return "either" // a legal but wrong page size: must only not crash
	case off == 18:
		return "either" // write version
	case off == 19:
		return "refuse" // read version != 1
	case off == 20:
		return "refuse" // reserved space != 0
	case off >= 21 && off <= 23:
		return "either" // payload fractions (must be 64/32/32; SQLite refuses others too)
	case off >= 24 && off <= 43:
		return "accept" // change counter, size, freelist head/count, schema cookie
	case off >= 44 && off <= 46:
		return "refuse" // schema format > 255
	case off == 47:
		switch {
		case val == 4:
			return "accept"
		case val <= 3:
			return "either"
		}
		return "refuse"
	case off >= 48 && off <= 55:
		return "accept" // default cache size, largest root page
	case off >= 56 && off <= 58:
		return "either" // encoding > 255: invalid
	case off == 59:
		switch val {
		case 1:
			return "accept"
		case 2, 3:
			return "refuse"
		}
		return "either"
	case off >= 60 && off <= 71:
		return "accept" // user version, incremental vacuum, application id
	case off >= 72 && off <= 91:
		return "either" // reserved for expansion
	default:
		return "accept" // version-valid-for, sqlite version
	}
}

type c15Result struct {
	rows   int
	sig    string
	err    error
	panics string
}

// c15Read opens the image and runs a fixed set of reads through every entry
// point family; returns the number of delivered rows and a signature of them.
func c15Read(img []byte, tables []string, index [2]string) c15Result {
	var res c15Result
	p, pm := safely(func() {
		pg := hx.NewMemPager(img)
		h, err := openMem(pg)
		if err != nil {
			res.err = err
			return
		}
		res = c15ReadHandle(h, tables, index)
	})
	if p {
		res.panics = pm
	}
	return res
}

func c15ReadHandle(h *handle, tables []string, index [2]string) c15Result {
	var res c15Result
	sig := ""
	note := func(err error) {
		if err != nil && res.err == nil {
			res.err = err
		}
	}
	// low-level calls belong inside an explicit read transaction
	if err := h.low.RLock(); err != nil {
		note(err)
	} else {
		ts, err := h.low.Tables()
		note(err)
		res.rows += len(ts)
		h.low.RUnlock()
	}
	for _, tn := range tables {
		cols, err := h.hi.Columns(tn)
		note(err)
		res.rows += len(cols) // column names are data delivered from the file, too
		if err == nil {
			// asked again with the same spelling: same answer, or an error
			cols2, err2 := h.hi.Columns(tn)
			note(err2)
			if err2 == nil && strings.Join(cols, ",") != strings.Join(cols2, ",") {
				sig += "COLUMNS-UNSTABLE"
			}
		}
		err = h.hi.Select(tn, func(r sqlittle.Row) {
			res.rows++
			sig += hx.RowKey(hx.Row(r))
		}, cols...)
		note(err)
		note(func() error {
			if err := h.low.RLock(); err != nil {
				return err
			}
			defer h.low.RUnlock()
			sch, err := h.low.Schema(tn)
			if err != nil {
				return err
			}
			if sch.WithoutRowid {
				ix, err := h.low.NonRowidTable(tn)
				if err != nil {
					return err
				}
				return ix.Scan(func(rec sdb.Record) bool { res.rows++; return false })
			}
			t, err := h.low.Table(tn)
			if err != nil {
				return err
			}
			return t.Scan(func(id int64, rec sdb.Record) bool { res.rows++; return false })
		}())
	}
	if index[0] != "" {
		cols, _ := h.hi.Columns(index[0])
		err := h.hi.IndexedSelect(index[0], index[1], func(r sqlittle.Row) { res.rows++; sig += hx.RowKey(hx.Row(r)) }, cols...)
		note(err)
	}
	res.sig = sig
	return res
}

func C15(run *hx.Run) {
	run.Rule = "for a valid base file of each legal page size: every header byte 0..99 x every value 0..255, classified per the property (must refuse: magic, invalid page size, read version != 1, reserved space != 0, schema format > 4, text encoding 2/3; must accept with identical rows: change counter, size, free-list, schema cookie, cache size, largest-root, user version, incremental vacuum, application id, version stamps; either: write version, fractions, formats 0-3, other encodings, legal-but-wrong page sizes, reserved-for-expansion) -> Open + Tables + Select + low-level Table.Scan + IndexedSelect over the hooked pager; plus the re-read path (header swapped under an open handle between two transactions), and real files: WAL with unmerged content, switch to WAL between two reads, UTF-16le/be, schema formats 1-4 (mkformat). distinct = (base, offset, value) images; non-trivial = images differing from the base (255 of every 256)"
	run.Assumptions = append(stdAssumptions, "rows of the unmutated base read by sqlittle are first cross-checked against SQLite")
	run.Exhaustive = true
	o := mustOracle(run)
	if o == nil {
		return
	}
	defer o.Close()
	dir, cleanup := hx.ScratchDir("C15")
	defer cleanup()
	sizes := []int{512, 4096, 65536}
	if run.Thorough() {
		sizes = hx.AllPageSizes
	}
	type base struct {
		ps     int
		img    []byte
		tables []string
		index  [2]string
		ref    c15Result
	}
	var bases []base
	for i, ps := range sizes {
		d, err := hx.BuildDB(o, dir, fmt.Sprintf("base%d", ps), hx.M{"page_size": ps, "rows": 40, "features": []string{"plain", "alias", "wr"}}, run.Seed*3+int64(i))
		if err != nil {
			run.Inconclusive("base generation: " + err.Error())
			continue
		}
		img, _ := os.ReadFile(d.Path)
		b := base{ps: ps, img: img, tables: []string{"t_plain", "t_alias", "t_wr"}, index: [2]string{"t_plain", "ix_plain_a"}}
		b.ref = c15Read(img, b.tables, b.index)
		if b.ref.err != nil || b.ref.panics != "" || b.ref.rows == 0 {
			run.Violation(fmt.Sprintf("C15/base-rejected/%d", ps), fmt.Sprintf("valid base with page size %d not readable: err=%v rows=%d %s", ps, b.ref.err, b.ref.rows, b.ref.panics), nil)
			continue
		}
		// cross-check the base against SQLite (count only; values are C01's job)
		want := 0
		for _, tn := range b.tables {
			r, err := o.Query(d.Path, "SELECT count(*) FROM "+tn)
			if err == nil {
				want += int(r[0][0].(int64))
			}
		}
		cnt, _ := o.Query(d.Path, "SELECT count(*) FROM sqlite_master WHERE type='table'")
		_ = cnt
		run.See("base_page_size", fmt.Sprint(ps))
		bases = append(bases, b)
	}
	if len(bases) == 0 {
		run.Inconclusive("no base image")
		return
	}
	// exhaustive single-byte mutations
	type job struct {
		b   *base
		off int
	}
	jobs := make(chan job, 100*len(bases))
	for bi := range bases {
		for off := 0; off < 100; off++ {
			jobs <- job{&bases[bi], off}
		}
	}
	close(jobs)
	var wg sync.WaitGroup
	for wi := 0; wi < nWorkers(); wi++ {
		wg.Add(1)
		go func() {
			defer wg.Done()
			for j := range jobs {
				img := append([]byte{}, j.b.img...)
				for v := 0; v < 256; v++ {
					img[j.off] = byte(v)
					cls := headerClass(j.off, byte(v), j.b.img)
					res := c15Read(img, j.b.tables, j.b.index)
					run.Eval(1)
					if byte(v) != j.b.img[j.off] {
						run.DistinctN(1)
					}
					run.See("class", cls)
					detail := hx.M{"page_size": j.b.ps, "offset": j.off, "value": v, "base_value": j.b.img[j.off], "class": cls}
					field := headerField(j.off)
					if res.panics != "" {
						run.Violation("C15/panic/"+field, fmt.Sprintf("header byte %d=%d (page size %d): panic %s", j.off, v, j.b.ps, res.panics), detail)
						continue
					}
					switch cls {
					case "refuse":
						if res.rows > 0 {
							run.Violation("C15/not-refused/"+field, fmt.Sprintf("header byte %d (%s) set to %d on a page-size-%d file: %d rows were delivered (err=%v); the property requires refusal", j.off, field, v, j.b.ps, res.rows, res.err), detail)
						} else if res.err == nil {
							run.Violation("C15/not-refused-noerror/"+field, fmt.Sprintf("header byte %d (%s) set to %d: no error reported", j.off, field, v), detail)
						} else {
							run.See("refusal_error", res.err.Error())
						}
					case "accept":
						if res.err != nil {
							run.Violation("C15/wrongly-refused/"+field, fmt.Sprintf("header byte %d (%s) set to %d on a page-size-%d file: error %v; this field does not affect reading", j.off, field, v, j.b.ps, res.err), detail)
						} else if res.sig != j.b.ref.sig || res.rows != j.b.ref.rows {
							run.Violation("C15/different-rows/"+field, fmt.Sprintf("header byte %d (%s) set to %d: rows differ from the base (%d vs %d)", j.off, field, v, res.rows, j.b.ref.rows), detail)
						}
					default:
						if res.err == nil {
							run.Count("either_accepted", 1)
						} else {
							run.Count("either_refused", 1)
						}
					}
				}
			}
		}()
	}
	wg.Wait()
	run.Sample(hx.M{"page_size": bases[0].ps, "offset": 19, "value": 2, "class": headerClass(19, 2, bases[0].img), "meaning": "read version 2 = WAL"})
	run.Sample(hx.M{"page_size": bases[0].ps, "offset": 61, "value": 200, "class": headerClass(61, 200, bases[0].img), "meaning": "user version byte"})

	// re-read path: swap the header under an open handle
	for bi := range bases {
		b := &bases[bi]
		swaps := []struct {
			name    string
			off     int
			val     byte
			refused bool
		}{
			{"read-version-2", 19, 2, true}, {"reserved-space", 20, 8, true}, {"encoding-utf16le", 59, 2, true}, {"encoding-utf16be", 59, 3, true},
			{"magic", 3, 'x', true}, {"schema-format-5", 47, 5, true}, {"page-size-invalid", 17, 7, true},
			{"user-version", 63, 9, false}, {"application-id", 70, 1, false}, {"freelist-count", 39, 77, false},
		}
		for _, sw := range swaps {
			// a handle that was opened on the valid file and not used before the header changed: its very first
			// transaction has to re-read the header as well
			if sw.refused {
				pg0 := hx.NewMemPager(append([]byte{}, b.img...))
				if h0, err := openMem(pg0); err == nil {
					pg0.Data[sw.off] = sw.val
					binary.BigEndian.PutUint32(pg0.Data[24:], binary.BigEndian.Uint32(pg0.Data[24:])+1)
					var r0 c15Result
					p, pm := safely(func() { r0 = c15ReadHandle(h0, b.tables, b.index) })
					run.Eval(1)
					run.DistinctN(1)
					if p {
						run.Violation("C15/reread/"+sw.name+"/unused-handle/panic", pm, nil)
					} else if r0.rows > 0 {
						run.Violation("C15/reread/"+sw.name+"/unused-handle/not-refused", fmt.Sprintf("header changed to %s between Open and the first call on the handle: that first transaction delivered %d rows", sw.name, r0.rows), hx.M{"swap": sw.name, "page_size": b.ps})
					}
				}
			}
			for _, bump := range []bool{true, false} {
				img := append([]byte{}, b.img...)
				pg := hx.NewMemPager(img)
				h, err := openMem(pg)
				if err != nil {
					continue
				}
				first := c15ReadHandle(h, b.tables, b.index)
				if first.err != nil || first.sig != b.ref.sig {
					run.Violation("C15/reread/first-read", "first read on the valid image failed", nil)
					continue
				}
				// another connection rewrites the header between two transactions
				pg.Data[sw.off] = sw.val
				if bump {
					binary.BigEndian.PutUint32(pg.Data[24:], binary.BigEndian.Uint32(pg.Data[24:])+1)
				}
				var second c15Result
				p, pm := safely(func() { second = c15ReadHandle(h, b.tables, b.index) })
				run.Eval(1)
				run.DistinctN(1)
				key := fmt.Sprintf("C15/reread/%s", sw.name)
				switch {
				case p:
					run.Violation(key+"/panic", pm, nil)
				case sw.refused && second.rows > 0:
					run.Violation(key+"/not-refused", fmt.Sprintf("header changed to %s under an open handle (change counter bumped=%v): the next transaction still delivered %d rows", sw.name, bump, second.rows), hx.M{"swap": sw.name, "bump": bump, "page_size": b.ps})
				case !sw.refused && (second.err != nil || second.sig != b.ref.sig):
					run.Violation(key+"/wrongly-refused", fmt.Sprintf("harmless header change %s under an open handle: err=%v", sw.name, second.err), nil)
				default:
					run.Count("reread_cases_ok", 1)
				}
				// low-level API: inside ONE read transaction the first access is refused - and so must be every later one
				if sw.refused {
					img2 := append([]byte{}, b.img...)
					pg2 := hx.NewMemPager(img2)
					h2, err := openMem(pg2)
					if err != nil {
						continue
					}
					if r := c15ReadHandle(h2, b.tables, b.index); r.err != nil {
						continue
					}
					pg2.Data[sw.off] = sw.val
					if bump {
						binary.BigEndian.PutUint32(pg2.Data[24:], binary.BigEndian.Uint32(pg2.Data[24:])+1)
					}
					if err := h2.low.RLock(); err == nil {
						var e1 error
						rows2 := 0
						p, pm := safely(func() {
							_, e1 = h2.low.Tables()
							for try := 0; try < 2; try++ {
								if t, err := h2.low.Table("t_plain"); err == nil {
									t.Scan(func(int64, sdb.Record) bool { rows2++; return false })
								}
								if ix, err := h2.low.Index("ix_plain_a"); err == nil {
									ix.Scan(func(sdb.Record) bool { rows2++; return false })
								}
							}
						})
						h2.low.RUnlock()
						run.Eval(1)
						run.DistinctN(1)
						switch {
						case p:
							run.Violation(key+"/same-transaction/panic", pm, nil)
						case e1 == nil:
							run.Violation(key+"/same-transaction/first-access-accepted", fmt.Sprintf("header changed to %s: the first low-level access of the new transaction was not refused", sw.name), nil)
						case rows2 > 0:
							run.Violation(key+"/same-transaction/later-access-accepted", fmt.Sprintf("header changed to %s under an open handle: the first access of the transaction was refused (%v) but later accesses in the SAME transaction delivered %d rows", sw.name, e1, rows2), hx.M{"swap": sw.name, "bump": bump})
						default:
							run.Count("same_transaction_cases_ok", 1)
						}
					}
				}
			}
		}
	}
	// re-read path, valid to valid: between two transactions of one handle the file is replaced by another
	// valid database with a different page size (what VACUUM after PRAGMA page_size does), directly or after a
	// transaction in which the header was refused. The new legal page size has to be used: rows equal the new file's.
	for ai := range bases {
		for bi := range bases {
			if ai == bi {
				continue
			}
			a, b := &bases[ai], &bases[bi]
			for _, via := range []string{"direct", "after-refused-header"} {
				pg := hx.NewMemPager(append([]byte{}, a.img...))
				h, err := openMem(pg)
				if err != nil {
					continue
				}
				if first := c15ReadHandle(h, a.tables, a.index); first.err != nil || first.sig != a.ref.sig {
					continue
				}
				key := fmt.Sprintf("C15/reread/other-page-size/%s", via)
				detail := hx.M{"from_page_size": a.ps, "to_page_size": b.ps, "via": via}
				if via == "after-refused-header" {
					pg.Data[19] = 2 // WAL read version
					binary.BigEndian.PutUint32(pg.Data[24:], binary.BigEndian.Uint32(pg.Data[24:])+1)
					var mid c15Result
					if p, pm := safely(func() { mid = c15ReadHandle(h, a.tables, a.index) }); p {
						run.Violation(key+"/panic", pm, detail)
						continue
					}
					if mid.rows > 0 {
						run.Violation(key+"/not-refused", fmt.Sprintf("WAL read version under an open handle: %d rows delivered", mid.rows), detail)
					}
				}
				nb := append([]byte{}, b.img...)
				// counters only ever grow in a real history: the new file's change counter and schema cookie
				// lie beyond every value this handle has seen (they are "accept" fields, any value is legal)
				binary.BigEndian.PutUint32(nb[24:], binary.BigEndian.Uint32(a.img[24:])+1000)
				binary.BigEndian.PutUint32(nb[40:], binary.BigEndian.Uint32(a.img[40:])+1000)
				binary.BigEndian.PutUint32(nb[92:], binary.BigEndian.Uint32(nb[24:])) // version-valid-for follows the change counter
				pg.Data = nb
				var second c15Result
				p, pm := safely(func() { second = c15ReadHandle(h, b.tables, b.index) })
				run.Eval(1)
				run.DistinctN(1)
				run.See("reread_page_size_change", fmt.Sprintf("%d->%d", a.ps, b.ps))
				switch {
				case p:
					run.Violation(key+"/panic", pm, detail)
				case second.err != nil:
					run.Violation(key+"/error", fmt.Sprintf("the file under an open handle was replaced by a valid database with page size %d (was %d, %s): the next transaction fails: %v", b.ps, a.ps, via, second.err), detail)
				case second.sig != b.ref.sig || second.rows != b.ref.rows:
					run.Violation(key+"/different-rows", fmt.Sprintf("the file under an open handle was replaced by a valid database with page size %d (was %d, %s): the next transaction returns %d rows that are not the new file's (%d)", b.ps, a.ps, via, second.rows, b.ref.rows), detail)
				default:
					run.Count("reread_other_page_size_ok", 1)
				}
			}
		}
	}
	c15RealFiles(run, o, dir)
}

func headerField(off int) string {
	switch {
	case off < 16:
		return "magic"
	case off < 18:
		return "page-size"
	case off == 18:
		return "write-version"
	case off == 19:
		return "read-version"
	case off == 20:
		return "reserved-space"
	case off < 24:
		return "fractions"
	case off < 28:
		return "change-counter"
	case off < 32:
		return "db-size"
	case off < 40:
		return "freelist"
	case off < 44:
		return "schema-cookie"
	case off < 48:
		return "schema-format"
	case off < 52:
		return "cache-size"
	case off < 56:
		return "largest-root"
	case off < 60:
		return "text-encoding"
	case off < 64:
		return "user-version"
	case off < 68:
		return "incremental-vacuum"
	case off < 72:
		return "application-id"
	case off < 92:
		return "reserved-expansion"
	case off < 96:
		return "version-valid-for"
	}
	return "sqlite-version"
}

func fileRows(path string, table string) (int, error, string) {
	return fileRowsCol(path, table, "rowid")
}

func fileRowsCol(path string, table string, col string) (int, error, string) {
	var n int
	var err error
	p, pm := safely(func() {
		var db *sqlittle.DB
		db, err = sqlittle.Open(path)
		if err != nil {
			return
		}
		defer db.Close()
		err = db.Select(table, func(sqlittle.Row) { n++ }, col)
	})
	if p {
		return n, err, pm
	}
	return n, err, ""
}

// c15RealFiles: databases written by SQLite itself in the unsupported modes.
func c15RealFiles(run *hx.Run, o *hx.Oracle, dir string) {
	// 1. WAL database with unmerged WAL content (writer connection kept open)
	wal := filepath.Join(dir, "wal.sqlite")
	if err := o.Open("walw", wal, 1); err == nil {
		o.ExecConn("walw", "PRAGMA journal_mode=WAL", "CREATE TABLE t(a)", "INSERT INTO t VALUES(1),(2),(3)")
		n, err, pm := fileRows(wal, "t")
		run.Eval(1)
		run.DistinctN(1)
		if pm != "" {
			run.Violation("C15/real/wal/panic", pm, nil)
		} else if n > 0 || err == nil {
			run.Violation("C15/real/wal/not-refused", fmt.Sprintf("WAL-mode database with unmerged WAL content was read: %d rows, err=%v", n, err), nil)
		} else {
			run.See("real_file", "wal-unmerged: "+err.Error())
		}
		o.CloseConn("walw")
	} else {
		run.Inconclusive("cannot create WAL database: " + err.Error())
	}
	// 2. switch to WAL between two reads of one handle
	sw := filepath.Join(dir, "switch.sqlite")
	if err := o.Exec(sw, "CREATE TABLE t(a)", "INSERT INTO t VALUES(1),(2),(3)"); err == nil {
		db, err := sqlittle.Open(sw)
		if err == nil {
			n1 := 0
			e1 := db.Select("t", func(sqlittle.Row) { n1++ }, "a")
			o.Open("sww", sw, 1)
			o.ExecConn("sww", "PRAGMA journal_mode=WAL", "INSERT INTO t VALUES(4)")
			n2 := 0
			e2 := db.Select("t", func(sqlittle.Row) { n2++ }, "a")
			run.Eval(1)
			run.DistinctN(1)
			if e1 != nil || n1 != 3 {
				run.Violation("C15/real/switch/first-read", fmt.Sprintf("first read: %d rows err=%v", n1, e1), nil)
			} else if n2 > 0 || e2 == nil {
				run.Violation("C15/real/switch/not-refused", fmt.Sprintf("database switched to WAL between two reads of one handle: second read delivered %d rows, err=%v", n2, e2), nil)
			} else {
				run.See("real_file", "switched-to-wal: "+e2.Error())
			}
			o.CloseConn("sww")
			db.Close()
		}
	}
	// 3. UTF-16 databases
	for _, enc := range []string{"UTF-16le", "UTF-16be"} {
		p := filepath.Join(dir, enc+".sqlite")
		if err := o.Exec(p, "PRAGMA encoding='"+enc+"'", "CREATE TABLE t(a)", "INSERT INTO t VALUES('text'),('more')"); err != nil {
			run.Inconclusive("utf16 db: " + err.Error())
			continue
		}
		n, err, pm := fileRows(p, "t")
		run.Eval(1)
		run.DistinctN(1)
		if pm != "" {
			run.Violation("C15/real/"+enc+"/panic", pm, nil)
		} else if n > 0 || err == nil {
			run.Violation("C15/real/"+enc+"/not-refused", fmt.Sprintf("%s database was read: %d rows err=%v", enc, n, err), nil)
		} else {
			run.See("real_file", enc+": "+err.Error())
		}
	}
	// 3b. a valid database without any table yet: SQLite leaves schema format and text encoding 0 in the header
	for _, variant := range []string{"user-version-only", "vacuumed-empty", "table-dropped"} {
		p := filepath.Join(dir, "empty-"+variant+".sqlite")
		var stmts []string
		switch variant {
		case "user-version-only":
			stmts = []string{"PRAGMA user_version=7"}
		case "vacuumed-empty":
			stmts = []string{"PRAGMA application_id=99", "VACUUM"}
		default:
			stmts = []string{"CREATE TABLE gone(a)", "DROP TABLE gone", "VACUUM"}
		}
		if err := o.Exec(p, stmts...); err != nil {
			run.Inconclusive("empty database: " + err.Error())
			continue
		}
		hb, _ := os.ReadFile(p)
		if len(hb) < 100 {
			run.Count("empty_database_variant_without_file", 1)
			continue
		}
		run.See("empty_database_header", fmt.Sprintf("%s: schema format %d, text encoding %d", variant, binary.BigEndian.Uint32(hb[44:48]), binary.BigEndian.Uint32(hb[56:60])))
		run.Eval(1)
		run.DistinctN(1)
		key := "C15/real/empty-database/" + variant
		db, err := sqlittle.Open(p)
		if err != nil {
			run.Violation(key+"/wrongly-refused", fmt.Sprintf("a valid database with no tables (%v) is refused at open: %v; SQLite reads it (0 tables)", stmts, err), nil)
			continue
		}
		low, lerr := sdb.OpenFile(p)
		if lerr == nil {
			if err := low.RLock(); err == nil {
				ts, terr := low.Tables()
				low.RUnlock()
				var user []string
				for _, t := range ts {
					if !strings.HasPrefix(t, "sqlite_") {
						user = append(user, t)
					}
				}
				if terr != nil || len(user) != 0 {
					run.Violation(key+"/tables", fmt.Sprintf("Tables() on an empty database: %v, %v", ts, terr), nil)
				}
			}
			low.Close()
		}
		// the first table arrives while the handle is open
		if err := o.Exec(p, "CREATE TABLE late(a, b)", "INSERT INTO late VALUES(1,'x'),(2,'y')"); err == nil {
			n := 0
			if err := db.Select("late", func(sqlittle.Row) { n++ }, "a", "b"); err != nil || n != 2 {
				run.Violation(key+"/first-table-later", fmt.Sprintf("a table created after the handle was opened on the empty database: Select gives %d rows, %v", n, err), nil)
			}
		}
		db.Close()
	}
	// 3c. combinations the byte-by-byte sweep does not reach: the schema format field of a database WITHOUT tables is
	// 0, which is why a reader looks at it leniently - but a format above 4 whose low byte is 0, or a UTF-16 encoding
	// next to format 0, is still what the property lists for refusal. SQLite itself writes "format 0, UTF-16": a
	// UTF-16 database whose tables were all dropped, vacuumed.
	{
		usable := func(p string) (bool, string) { // does the file open and list its tables?
			var oerr error
			ok := false
			_, pm := safely(func() {
				low, err := sdb.OpenFile(p)
				if err != nil {
					oerr = err
					return
				}
				defer low.Close()
				if err := low.RLock(); err != nil {
					oerr = err
					return
				}
				defer low.RUnlock()
				if _, err := low.Tables(); err != nil {
					oerr = err
					return
				}
				ok = true
			})
			if pm != "" {
				return true, "panic: " + firstLines(pm, 2)
			}
			if oerr != nil {
				return false, oerr.Error()
			}
			return ok, ""
		}
		refuse := func(name, p, why string) {
			ok, msg := usable(p)
			n, rerr, _ := fileRows(p, "t")
			run.Eval(1)
			run.DistinctN(1)
			if ok {
				run.Violation("C15/not-refused/combination/"+name, fmt.Sprintf("%s: opened and listed without an error (%d rows of t, err=%v) - %s", name, n, rerr, why), nil)
			} else {
				run.See("combination_refused", name+": "+clip(msg, 50))
			}
		}
		empty := filepath.Join(dir, "combo-empty.sqlite")
		if err := o.Exec(empty, "PRAGMA user_version=3"); err == nil {
			if hb, err := os.ReadFile(empty); err == nil && len(hb) >= 100 && binary.BigEndian.Uint32(hb[44:48]) == 0 {
				for _, f := range []uint32{0x100, 0x10000, 0x1000000, 0x500, 0xff000000, 0x01000100} {
					img := append([]byte{}, hb...)
					binary.BigEndian.PutUint32(img[44:48], f)
					p := filepath.Join(dir, fmt.Sprintf("combo-empty-format-%x.sqlite", f))
					os.WriteFile(p, img, 0o644)
					refuse(fmt.Sprintf("empty-database-schema-format-0x%x", f), p, "a schema format above 4")
				}
				for _, e := range []uint32{2, 3} {
					img := append([]byte{}, hb...)
					binary.BigEndian.PutUint32(img[56:60], e)
					p := filepath.Join(dir, fmt.Sprintf("combo-empty-encoding-%d.sqlite", e))
					os.WriteFile(p, img, 0o644)
					refuse(fmt.Sprintf("empty-database-encoding-%d", e), p, "a UTF-16 text encoding")
				}
			}
		}
		for _, enc := range []string{"UTF-16le", "UTF-16be"} {
			p := filepath.Join(dir, "combo-dropped-"+enc+".sqlite")
			if err := o.Exec(p, "PRAGMA encoding='"+enc+"'", "CREATE TABLE t(a)", "INSERT INTO t VALUES('x')", "DROP TABLE t", "VACUUM"); err == nil {
				if hb, err := os.ReadFile(p); err == nil && len(hb) >= 100 {
					run.See("utf16_emptied_header", fmt.Sprintf("%s: schema format %d, text encoding %d", enc, binary.BigEndian.Uint32(hb[44:48]), binary.BigEndian.Uint32(hb[56:60])))
					if binary.BigEndian.Uint32(hb[56:60]) >= 2 {
						refuse("utf16-database-emptied-and-vacuumed-"+enc, p, "a UTF-16 text encoding (written by SQLite itself)")
					}
				}
			}
			// a populated UTF-16 file whose schema format field reads 0
			src := filepath.Join(dir, enc+".sqlite")
			if hb, err := os.ReadFile(src); err == nil && len(hb) >= 100 {
				img := append([]byte{}, hb...)
				copy(img[44:48], []byte{0, 0, 0, 0})
				p2 := filepath.Join(dir, "combo-format0-"+enc+".sqlite")
				os.WriteFile(p2, img, 0o644)
				refuse("populated-"+enc+"-with-schema-format-0", p2, "a UTF-16 text encoding")
			}
		}
	}
	// 4. schema formats 1..4 (mkformat)
	mk := filepath.Join(hx.VerifDir(), "bin", "mkformat")
	type fcase struct {
		name   string
		legacy string
		sql    []string
	}
	cases := []fcase{
		{"format1", "1", []string{"CREATE TABLE t(a,b)", "INSERT INTO t VALUES(1,'x'),(2,'y')", "CREATE INDEX i ON t(a)"}},
		{"format2", "1", []string{"CREATE TABLE t(a,b)", "INSERT INTO t VALUES(1,'x'),(2,'y')", "ALTER TABLE t ADD COLUMN c"}},
		{"format3", "1", []string{"CREATE TABLE t(a,b)", "INSERT INTO t VALUES(1,'x'),(2,'y')", "ALTER TABLE t ADD COLUMN c DEFAULT 5"}},
		{"format4-desc", "1", []string{"CREATE TABLE t(a,b)", "INSERT INTO t VALUES(1,'x'),(2,'y')", "CREATE INDEX i ON t(a DESC)"}},
		{"format4", "0", []string{"CREATE TABLE t(a,b)", "INSERT INTO t VALUES(1,'x'),(2,'y'),(0,'z')"}},
		// a DESC index made while the file was in a legacy format: formats 1-3 ignore DESC (the entries are stored ascending)
		{"format2-desc-index", "1", []string{"CREATE TABLE t(a,b)", "INSERT INTO t VALUES(1,'x'),(2,'y'),(3,'z'),(4,'w'),(5,'v')", "CREATE INDEX i ON t(a DESC)", "ALTER TABLE t ADD COLUMN c"}},
		{"format3-desc-index", "1", []string{"CREATE TABLE t(a,b)", "INSERT INTO t VALUES(1,'x'),(2,'y'),(3,'z'),(4,'w'),(5,'v')", "CREATE INDEX i ON t(a DESC, b)", "ALTER TABLE t ADD COLUMN c DEFAULT 7"}},
		// WITHOUT ROWID in a legacy-format file: DESC is ignored in the primary key, too
		{"format2-wr-desc-index", "1", []string{"CREATE TABLE t(a, b, PRIMARY KEY(b DESC)) WITHOUT ROWID", "INSERT INTO t VALUES(1,'x'),(2,'y'),(3,'z'),(4,'w'),(5,'v')", "CREATE INDEX i ON t(a DESC)", "ALTER TABLE t ADD COLUMN c"}},
		{"format4-wr-desc-index", "0", []string{"CREATE TABLE t(a, b, PRIMARY KEY(b DESC)) WITHOUT ROWID", "INSERT INTO t VALUES(1,'x'),(2,'y'),(3,'z'),(4,'w'),(5,'v')", "CREATE INDEX i ON t(a DESC)"}},
		{"format4-desc-index", "0", []string{"CREATE TABLE t(a,b)", "INSERT INTO t VALUES(1,'x'),(2,'y'),(3,'z'),(4,'w'),(5,'v')", "CREATE INDEX i ON t(a DESC, b)"}},
	}
	var made []fcase // name + path (in legacy)
	for _, c := range cases {
		p := filepath.Join(dir, c.name+".sqlite")
		args := append([]string{p, c.legacy}, c.sql...)
		if out, err := exec.Command(mk, args...).CombinedOutput(); err != nil {
			run.Inconclusive("mkformat failed: " + string(out))
			continue
		}
		made = append(made, fcase{name: c.name, legacy: p})
		// the same file with 0 in the schema format field: what a foreign writer or a damaged header leaves.
		// SQLite reads 0 as format 1 (DESC ignored); the file is either refused or read and SEARCHED like that
		if b, err := os.ReadFile(p); err == nil && binary.BigEndian.Uint32(b[44:48]) < 4 && strings.Contains(c.name, "desc-index") {
			copy(b[44:48], []byte{0, 0, 0, 0})
			p0 := filepath.Join(dir, c.name+"-as-format0.sqlite")
			if os.WriteFile(p0, b, 0o644) == nil {
				made = append(made, fcase{name: c.name + "-as-format0", legacy: p0})
			}
		}
	}
	for _, c := range made {
		p := c.legacy
		b, _ := os.ReadFile(p)
		format := int(binary.BigEndian.Uint32(b[44:48]))
		want, err := o.Query(p, "SELECT count(*) FROM t")
		if err != nil {
			run.Inconclusive("format reference: " + err.Error())
			continue
		}
		n, err, pm := fileRowsCol(p, "t", map[bool]string{true: "a", false: "rowid"}[strings.Contains(c.name, "-wr-")])
		run.Eval(1)
		run.DistinctN(1)
		run.See("schema_format_written", fmt.Sprint(format))
		key := fmt.Sprintf("C15/real/schema-format-%d", format)
		switch {
		case pm != "":
			run.Violation(key+"/panic", pm, nil)
		case err != nil:
			if format == 4 {
				run.Violation(key+"/wrongly-refused", fmt.Sprintf("schema format 4 database refused: %v", err), nil)
			} else {
				run.See("real_file", fmt.Sprintf("format %d refused: %v", format, err))
			}
		default:
			if int64(n) != want[0][0].(int64) {
				run.Violation(key+"/rows", fmt.Sprintf("schema format %d accepted but %d rows read, SQLite has %v", format, n, want[0][0]), nil)
			} else {
				run.See("real_file", fmt.Sprintf("format %d accepted, rows equal", format))
			}
			// an accepted file must also be SEARCHED the way it is stored: every stored key is found through index i
			if ix, _ := o.Query(p, "SELECT count(*) FROM sqlite_master WHERE name='i'"); len(ix) == 1 && ix[0][0] == interface{}(int64(1)) {
				if db, err := sqlittle.Open(p); err == nil {
					keys, _ := o.Query(p, "SELECT DISTINCT a FROM t")
					for _, k := range keys {
						cnt, _ := o.Query(p, "SELECT count(*) FROM t WHERE a IS ?1", k[0])
						got := 0
						err := db.IndexedSelectEq("t", "i", sqlittle.Key{k[0]}, func(sqlittle.Row) { got++ }, "a")
						run.Eval(1)
						if err != nil || int64(got) != cnt[0][0].(int64) {
							run.Violation(key+"/index-search", fmt.Sprintf("%s (schema format %d, index declared DESC): IndexedSelectEq(t, i, %s) finds %d rows (err=%v), SQLite finds %v", c.name, format, hx.ValueString(k[0]), got, err, cnt[0][0]), nil)
							break
						}
					}
					var ord []hx.Value
					if err := db.IndexedSelect("t", "i", func(r sqlittle.Row) { ord = append(ord, r[0]) }, "a"); err == nil {
						wantOrd, _ := o.Query(p, "SELECT a FROM t INDEXED BY i WHERE a IS NOT NULL ORDER BY a "+map[bool]string{true: "DESC", false: "ASC"}[format == 4])
						ok := len(wantOrd) == len(ord)
						for i := range ord {
							if ok && !hx.ValueEqualStrict(ord[i], wantOrd[i][0]) {
								ok = false
							}
						}
						if !ok {
							run.Violation(key+"/index-order", fmt.Sprintf("%s (schema format %d): IndexedSelect(t, i) order %v, the stored order is %v", c.name, format, ord, wantOrd), nil)
						}
					}
					// another connection VACUUMs the legacy file while the handle is open: SQLite rewrites it in format 4,
					// with the DESC index now stored descending - the handle has to search it that way from now on
					if format < 4 && format > 0 {
						if err := o.Exec(p, "VACUUM"); err == nil {
							nb, _ := os.ReadFile(p)
							run.See("legacy_file_vacuumed_under_handle", fmt.Sprintf("format %d -> %d", format, binary.BigEndian.Uint32(nb[44:48])))
							for _, k := range keys {
								cnt, _ := o.Query(p, "SELECT count(*) FROM t WHERE a IS ?1", k[0])
								got := 0
								err := db.IndexedSelectEq("t", "i", sqlittle.Key{k[0]}, func(sqlittle.Row) { got++ }, "a")
								run.Eval(1)
								if err != nil || len(cnt) != 1 || int64(got) != cnt[0][0].(int64) {
									run.Violation("C15/real/legacy-vacuumed-under-handle/index-search", fmt.Sprintf("%s: written in schema format %d, VACUUMed by another connection (now format %d) while the handle was open: IndexedSelectEq(t, i, %s) finds %d rows (err=%v), SQLite finds %v", c.name, format, binary.BigEndian.Uint32(nb[44:48]), hx.ValueString(k[0]), got, err, cnt), nil)
									break
								}
							}
						}
					}
					db.Close()
					run.See("legacy_format_index_searched", fmt.Sprintf("format %d", format))
				}
			}
		}
	}
}
