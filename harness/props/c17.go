//go:build verif

package props

import (
	"fmt"
	"github.com/alicebob/sqlittle"
	sdb "github.com/alicebob/sqlittle/db"
	"math/rand"
	"os"
	"path/filepath"
	"sync"

	"verifharness/hx"
)

func init() { register("C17", "exploration", C17) }

// structuralStops returns, for a full in-order scan of the tree at root, the
// 1-based row positions that are structurally interesting.
func structuralStops(data []byte, pageSize, root int) (map[int]string, int) {
	stops := map[int]string{}
	pos := 0
	depth := 0
	var rec func(no, level int, rightmostPath bool) bool
	rec = func(no, level int, rightmostPath bool) bool {
		if level > 40 {
			return false
		}
		if level > depth {
			depth = level
		}
		p, err := hx.ParsePage(data, pageSize, no)
		if err != nil {
			return false
		}
		switch p.Kind {
		case 0x0d, 0x0a:
			if len(p.Cells) > 0 {
				stops[pos+1] = fmt.Sprintf("leaf-first-L%d", level)
				if rightmostPath {
					stops[pos+1] = fmt.Sprintf("rightmost-child-first-L%d", level)
				}
				stops[pos+len(p.Cells)] = fmt.Sprintf("leaf-last-L%d", level)
			}
			pos += len(p.Cells)
		case 0x05:
			for _, c := range p.Cells {
				if !rec(int(c.LeftChild), level+1, false) {
					return false
				}
			}
			return rec(int(p.RightMost), level+1, true)
		case 0x02:
			for _, c := range p.Cells {
				if !rec(int(c.LeftChild), level+1, false) {
					return false
				}
				pos++
				stops[pos] = fmt.Sprintf("interior-entry-L%d", level)
			}
			return rec(int(p.RightMost), level+1, true)
		}
		return true
	}
	if !rec(root, 1, false) {
		return nil, 0
	}
	return stops, depth
}

func C17(run *hx.Run) {
	run.Rule = "for every stoppable operation (Table.Scan, Index.Scan, NonRowidTable.Scan, ScanMin, ScanRange, ScanEq, SelectDone) on every table/index of every generated database and every stop position k (all k up to a per-result cap; beyond it all structurally interesting k - last row of a leaf, entry in an interior index page, first row of the right-most child, at each level, located by the page walker - plus a PRNG sample): callback invoked exactly k times, rows equal the first k of the full result, nil error, no callback after 'done', lock released (pager lock/unlock balance). distinct = (database, operation, k)"
	run.Assumptions = append(stdAssumptions, "lock release is observed on the hooked pager here; the real fcntl lock after SelectDone is observed in C06")
	profiles := []hx.M{
		{"page_size": 512, "rows": 400},
		{"page_size": 1024, "rows": 700, "frag": true},
		{"page_size": 4096, "rows": 500},
		{"page_size": 512, "rows": 5000, "features": []string{"plain", "alias", "wr"}},
	}
	capAll := 500
	sample := 60
	if run.Thorough() {
		profiles = append(profiles,
			hx.M{"page_size": 512, "rows": 2500},
			hx.M{"page_size": 2048, "rows": 1500, "auto_vacuum": 1},
			hx.M{"page_size": 65536, "rows": 3000},
			hx.M{"page_size": 1024, "rows": 30000, "features": []string{"alias", "wr"}},
			hx.M{"page_size": 512, "rows": 60000, "features": []string{"plain"}},
		)
		capAll = 3000
		sample = 300
	}
	type job struct {
		data  []byte
		o     op
		name  string
		roots map[string]int
		ps    int
		pi    int
	}
	var jobs []job
	var jmu sync.Mutex
	forEachProfile(run, profiles, func(w *worker, d *hx.DB, idx int) {
		data, err := os.ReadFile(d.Path)
		if err != nil {
			run.Inconclusive("read db: " + err.Error())
			return
		}
		ops, err := buildOps(data, true, 0)
		if err != nil {
			run.Inconclusive("operation catalogue: " + err.Error())
			return
		}
		roots := map[string]int{}
		for _, t := range d.Meta.Tables {
			roots["t:"+t.Name] = t.Root
			for _, ix := range t.Indexes {
				roots["i:"+ix.Name] = ix.Root
			}
		}
		jmu.Lock()
		for _, o := range ops {
			if o.canStop {
				jobs = append(jobs, job{data, o, hx.ProfileName(idx, d.Profile), roots, d.PageSize(), idx})
			}
		}
		jmu.Unlock()
	})
	ch := make(chan job, len(jobs))
	for _, j := range jobs {
		ch <- j
	}
	close(ch)
	var wg sync.WaitGroup
	for wi := 0; wi < nWorkers(); wi++ {
		wg.Add(1)
		go func(wi int) {
			defer wg.Done()
			for j := range ch {
				rng := rand.New(rand.NewSource(run.Seed*31 + int64(len(j.o.name))*7 + int64(j.pi)))
				p := hx.NewMemPager(j.data)
				h, err := openMem(p)
				if err != nil {
					run.Inconclusive("open: " + err.Error())
					continue
				}
				ref := j.o.run(h, 0)
				if ref.panicMsg != "" {
					run.Violation("C17/"+j.o.kind+"/"+pmKind(ref.panicMsg), fmt.Sprintf("%s on %s (full run, no stop): %s", j.o.name, j.name, firstLines(ref.panicMsg, 2)), nil)
					continue
				}
				if ref.err != nil {
					run.Count("ops_failing_unstopped", 1)
					continue
				}
				n := len(ref.rows)
				if n == 0 {
					run.Count("ops_with_empty_result", 1)
					continue
				}
				// stop positions
				ks := map[int]string{}
				if n <= capAll {
					for k := 1; k <= n; k++ {
						ks[k] = "all"
					}
				} else {
					for i := 0; i < sample; i++ {
						ks[1+rng.Intn(n)] = "sample"
					}
					ks[1], ks[n] = "first", "last"
				}
				// structural positions apply to full scans
				var stops map[int]string
				switch j.o.kind {
				case "Table.Scan", "SelectDone":
					if r, ok := j.roots["t:"+j.o.table]; ok {
						stops, _ = structuralStops(j.data, j.ps, r)
					}
				case "Index.Scan":
					if j.o.index != "" {
						if r, ok := j.roots["i:"+j.o.index]; ok {
							stops, _ = structuralStops(j.data, j.ps, r)
						}
					} else if r, ok := j.roots["t:"+j.o.table]; ok {
						stops, _ = structuralStops(j.data, j.ps, r)
					}
				}
				for k, why := range stops {
					if k >= 1 && k <= n {
						ks[k] = why
					}
				}
				for k, why := range ks {
					// alternate between the warm handle and a fresh one
					hh, pp := h, p
					if k%7 == 0 {
						pp = hx.NewMemPager(j.data)
						hh, err = openMem(pp)
						if err != nil {
							continue
						}
					}
					lk0, ul0 := pp.LockCalls, pp.UnlockCall
					res := j.o.run(hh, k)
					run.Eval(1)
					run.DistinctN(1)
					if why != "all" && why != "sample" {
						run.See("stop_position_kind", why)
					}
					key := fmt.Sprintf("C17/%s", j.o.kind)
					detail := hx.M{"db": j.name, "op": j.o.name, "k": k, "result_size": n, "position": why}
					switch {
					case res.panicMsg != "":
						run.Violation(key+"/"+pmKind(res.panicMsg), fmt.Sprintf("%s stop at %d: %s", j.o.name, k, firstLines(res.panicMsg, 2)), detail)
					case res.err != nil:
						run.Violation(key+"/error", fmt.Sprintf("%s on %s: stopping at row %d of %d (%s) returned error %v", j.o.name, j.name, k, n, why, res.err), detail)
					case res.callbacks != k:
						run.Violation(key+"/callback-count", fmt.Sprintf("%s on %s: asked to stop at row %d of %d (%s) but the callback ran %d times (%d after done)", j.o.name, j.name, k, n, why, res.callbacks, res.afterDone), detail)
					default:
						if pre, at := isPrefix(res.rows, ref.rows); !pre {
							run.Violation(key+"/not-a-prefix", fmt.Sprintf("%s stop at %d: row %d differs from the full result", j.o.name, k, at), detail)
						}
					}
					if pp.Locked || pp.LockCalls-lk0 != pp.UnlockCall-ul0 {
						run.Violation(key+"/lock-held", fmt.Sprintf("%s stop at %d: lock calls %d, unlock calls %d, locked=%v after return", j.o.name, k, pp.LockCalls-lk0, pp.UnlockCall-ul0, pp.Locked), detail)
					}
				}
				run.See("op_kind", j.o.kind)
				run.Count("ops", 1)
				if n > 20 {
					run.Sample(hx.M{"db": j.name, "op": j.o.name, "result_rows": n, "stop_positions_tried": len(ks)})
				}
			}
		}(wi)
	}
	wg.Wait()
	// nested scans: a second scan on the SAME table / index handle, started from inside the callback of a
	// running scan and stopped early, must deliver its own prefix, and the outer scan must go on delivering
	// its own rows to its own callback afterwards
	seenData := map[*byte]bool{}
	for _, j := range jobs {
		if len(j.data) == 0 || seenData[&j.data[0]] {
			continue
		}
		seenData[&j.data[0]] = true
		c17Nested(run, j.data, j.name, j.roots)
	}
	c17RealLock(run)
	for _, k := range []string{"Table.Scan", "Index.Scan", "Index.ScanMin", "Index.ScanRange", "Index.ScanEq", "SelectDone"} {
		if run.Seen("op_kind", k) == 0 {
			run.Inconclusive("no " + k + " operation was exercised")
		}
	}
}

func c17Nested(run *hx.Run, data []byte, dbname string, roots map[string]int) {
	p := hx.NewMemPager(data)
	h, err := openMem(p)
	if err != nil {
		return
	}
	if err := h.low.RLock(); err != nil {
		return
	}
	defer h.low.RUnlock()
	type scanner struct {
		kind, name string
		scan       func(cb func(hx.Row) bool) error
	}
	var scs []scanner
	for key := range roots {
		name := key[2:]
		if key[0] == 't' {
			if sch, err := h.low.Schema(name); err == nil && sch.WithoutRowid {
				if t, err := h.low.NonRowidTable(name); err == nil {
					scs = append(scs, scanner{"Index.Scan", name, func(cb func(hx.Row) bool) error {
						return t.Scan(func(rec sdb.Record) bool { return cb(recordToRow(rec)) })
					}})
				}
			} else if t, err := h.low.Table(name); err == nil {
				scs = append(scs, scanner{"Table.Scan", name, func(cb func(hx.Row) bool) error {
					return t.Scan(func(id int64, rec sdb.Record) bool {
						return cb(append(hx.Row{id}, recordToRow(rec)...))
					})
				}})
			}
		} else if ix, err := h.low.Index(name); err == nil {
			scs = append(scs, scanner{"Index.Scan", name, func(cb func(hx.Row) bool) error {
				return ix.Scan(func(rec sdb.Record) bool { return cb(recordToRow(rec)) })
			}})
		}
	}
	for _, sc := range scs {
		var ref []hx.Row
		if err := sc.scan(func(r hx.Row) bool { ref = append(ref, r); return false }); err != nil || len(ref) < 4 {
			continue
		}
		for _, at := range []int{1, len(ref) / 2, len(ref) - 1} { // outer row (1-based) at which the inner scan runs
			for _, k := range []int{1, 2, len(ref) / 3, len(ref)} { // inner stop position
				if k < 1 {
					continue
				}
				var outer, inner []hx.Row
				innerCalls := 0
				var innerErr error
				outerErr := sc.scan(func(r hx.Row) bool {
					outer = append(outer, r)
					if len(outer) == at {
						innerErr = sc.scan(func(r2 hx.Row) bool {
							innerCalls++
							inner = append(inner, r2)
							return len(inner) >= k
						})
					}
					return false
				})
				run.Eval(1)
				run.DistinctN(1)
				run.See("nested_scan", sc.kind)
				key := "C17/" + sc.kind + "/nested"
				detail := hx.M{"db": dbname, "object": sc.name, "outer_row": at, "inner_stop": k, "rows": len(ref)}
				switch {
				case innerErr != nil || outerErr != nil:
					run.Violation(key+"/error", fmt.Sprintf("%s(%s) on %s: inner scan stopped at %d from inside outer row %d: inner err=%v outer err=%v", sc.kind, sc.name, dbname, k, at, innerErr, outerErr), detail)
				case innerCalls != k || !sameRows(inner, ref[:k]):
					run.Violation(key+"/inner-not-a-prefix", fmt.Sprintf("%s(%s) on %s: inner scan asked to stop at %d got %d callbacks / rows differ from the first %d", sc.kind, sc.name, dbname, k, innerCalls, k), detail)
				case !sameRows(outer, ref):
					run.Violation(key+"/outer-disturbed", fmt.Sprintf("%s(%s) on %s: after an inner scan (stopped at %d) ran inside its callback at row %d, the outer scan delivered %d rows instead of its %d (or other rows)", sc.kind, sc.name, dbname, k, at, len(outer), len(ref)), detail)
				}
			}
		}
	}
}

// c17RealLock: "returns ... with the read lock released", on a real file: after a scan was stopped at row k -
// plainly, and with a (refused) attempt to read again on the same handle from inside the callback just before
// the stop - this process holds no lock of any kind on the file (/proc/locks: shared range, pending byte,
// reserved byte) and a SQLite writer in another process commits at once.
func c17RealLock(run *hx.Run) {
	o := mustOracle(run)
	if o == nil {
		return
	}
	defer o.Close()
	dir, cleanup := hx.ScratchDir("C17lock")
	defer cleanup()
	path := filepath.Join(dir, "stop.sqlite")
	if err := makeVersionedDB(o, path, 1024, 300); err != nil {
		run.Inconclusive("stop-lock db: " + err.Error())
		return
	}
	if err := o.Exec(path, "CREATE TABLE w(k INTEGER, v TEXT, PRIMARY KEY(k)) WITHOUT ROWID", "INSERT INTO w SELECT id, pad FROM t"); err != nil {
		run.Inconclusive("stop-lock db: " + err.Error())
		return
	}
	db, err := sqlittle.Open(path)
	if err != nil {
		run.Violation("C17/real-file/open", err.Error(), nil)
		return
	}
	defer db.Close()
	type scan struct {
		name string
		run  func(cb func(sqlittle.Row) bool) error
	}
	scans := []scan{
		{"SelectDone/t", func(cb func(sqlittle.Row) bool) error { return db.SelectDone("t", cb, "id") }},
		{"SelectDone/w (WITHOUT ROWID)", func(cb func(sqlittle.Row) bool) error { return db.SelectDone("w", cb, "k") }},
	}
	version := 5000
	for _, sc := range scans {
		for _, k := range []int{1, 2, 57, 299, 300} {
			for _, nested := range []bool{false, true} {
				n := 0
				err := sc.run(func(sqlittle.Row) bool {
					n++
					if nested && n == k {
						// refused ("trying to lock a locked lock"); whatever it tried must be undone
						safely(func() { db.Select("meta", func(sqlittle.Row) {}, "version") })
						safely(func() { db.Columns("t") })
					}
					return n >= k
				})
				run.Eval(1)
				run.DistinctN(1)
				key := "C17/real-file/" + map[bool]string{false: "stop", true: "stop-after-nested-attempt"}[nested]
				detail := hx.M{"scan": sc.name, "k": k, "nested_attempt": nested}
				if err != nil || n != k {
					run.Violation(key+"/result", fmt.Sprintf("%s stopped at %d: %d callbacks, err=%v", sc.name, k, n, err), detail)
				}
				if locks := ourLocks(path); len(locks) > 0 {
					run.Violation(key+"/lock-left-behind", fmt.Sprintf("%s stopped at row %d (nested read attempt in the callback: %v) returned, but this process still holds %+v on the file", sc.name, k, nested, locks), detail)
				}
				version++
				if err := o.Exec(path, fmt.Sprintf("UPDATE meta SET version=%d", version)); err != nil {
					run.Violation(key+"/writer-blocked", fmt.Sprintf("after %s stopped at row %d (nested attempt: %v) a SQLite writer gets: %v", sc.name, k, nested, err), detail)
				}
			}
		}
	}
	run.See("real_file_lock_after_stop", "no lock of this process in /proc/locks, writer commits")
}
