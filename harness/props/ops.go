//go:build verif

package props

import (
	"fmt"
	"strings"

	"github.com/alicebob/sqlittle"
	sdb "github.com/alicebob/sqlittle/db"

	"verifharness/hx"
)

// handle is a pair of views on one pager: the high-level API and the low-level one.
type handle struct {
	hi  *sqlittle.DB
	low *sdb.Database
	// the row the previous rowid lookup on this handle returned, as it was handed out, and a copy of it:
	// it must not change while other lookups run (on this or on any other handle)
	keptRow   sqlittle.Row
	keptClone hx.Row
	keptFrom  string
}

// keepLookup checks the row kept from the previous rowid lookup and keeps this one instead.
func (h *handle) keepLookup(c *collector, from string, r sqlittle.Row) {
	if h.keptRow != nil && !hx.RowEqualStrict(hx.Row(h.keptRow), h.keptClone) && c.changed == "" {
		c.changed = fmt.Sprintf("the row returned earlier by %s changed while later lookups ran: was %s, now %s", h.keptFrom, hx.RowString(h.keptClone), hx.RowString(hx.Row(h.keptRow)))
	}
	h.keptRow, h.keptClone, h.keptFrom = nil, nil, ""
	if r != nil {
		h.keptRow, h.keptClone, h.keptFrom = r, hx.CloneRow(r), from
	}
}

// openMem opens a handle over an in-memory image through the verif hook.
func openMem(p *hx.MemPager) (*handle, error) {
	d, err := sdb.VerifOpenPager(p, "")
	if err != nil {
		return nil, err
	}
	return &handle{hi: sqlittle.VerifWrap(d), low: d}, nil
}

// opResult is what one operation delivered.
type opResult struct {
	rows      []hx.Row
	err       error
	panicMsg  string
	callbacks int
	afterDone int // callbacks after the callback asked to stop
}

// op is one public operation, parameterised by a stop position: stop<=0 means
// run to the end; stop=k means the callback returns "done" at its k-th call.
type op struct {
	name    string
	kind    string // API entry point name
	highLvl bool   // takes the lock itself
	canStop bool
	run     func(h *handle, stop int) opResult
	table   string
	index   string
}

// collector builds callbacks that record rows and implement the stop position.
type collector struct {
	res  opResult
	stop int
	done bool
	max  int // callback budget (0: none); exceeding it panics with errCallbackBudget
	// the previous row as delivered (not copied) and its copy: it must not change while later rows are read
	prevRaw   []hx.Value
	prevClone hx.Row
	changed   string
}

type callbackBudgetExceeded struct{}

func (c *collector) add(r []hx.Value) bool {
	c.res.callbacks++
	if c.done {
		c.res.afterDone++
	}
	if c.max > 0 && c.res.callbacks > c.max {
		panic(callbackBudgetExceeded{})
	}
	if c.prevRaw != nil && c.changed == "" && !hx.RowEqualStrict(hx.Row(c.prevRaw), c.prevClone) {
		c.changed = fmt.Sprintf("row %d changed after row %d was read: was %s, now %s", c.res.callbacks-1, c.res.callbacks, hx.RowString(c.prevClone), hx.RowString(c.prevRaw))
	}
	cl := hx.CloneRow(r)
	c.prevRaw, c.prevClone = r, cl
	c.res.rows = append(c.res.rows, cl)
	if c.stop > 0 && c.res.callbacks >= c.stop {
		c.done = true
		return true
	}
	return false
}

var callbackBudget = 0 // set by C05

func runOp(f func(c *collector) error, stop int) opResult {
	c := &collector{stop: stop, max: callbackBudget}
	func() {
		defer func() {
			if r := recover(); r != nil {
				if _, ok := r.(callbackBudgetExceeded); ok {
					c.res.panicMsg = "CALLBACK-BUDGET"
					return
				}
				_, msg := safely(func() { panic(r) })
				c.res.panicMsg = msg
			}
		}()
		c.res.err = f(c)
	}()
	if c.changed != "" && c.res.panicMsg == "" {
		c.res.panicMsg = "RETAINED-ROW-CHANGED: " + c.changed
	}
	return c.res
}

func withLow(h *handle, lock bool, f func() error) error {
	if lock {
		if err := h.low.RLock(); err != nil {
			return err
		}
		defer h.low.RUnlock()
	}
	return f()
}

// keySample picks keys for searching ops from a fault-free scan of the index.
type keySample struct {
	keys []sdb.Key
	recs []sdb.Record
}

func dbKeyFromRecord(rec sdb.Record, cols []sdb.IndexColumn, n int) sdb.Key {
	var k sdb.Key
	for i := 0; i < n && i < len(rec); i++ {
		kc := sdb.KeyCol{V: hx.CloneValue(rec[i])}
		if i < len(cols) {
			kc.Collate = strings.ToLower(cols[i].Collate)
			kc.Desc = cols[i].SortOrder != 0
		}
		k = append(k, kc)
	}
	return k
}

// buildOps enumerates the operations for a database image. lockLow: wrap
// low-level operations in RLock/RUnlock (as a careful caller would).
func buildOps(data []byte, lockLow bool, maxPerKind int) ([]op, error) {
	p := hx.NewMemPager(data)
	h, err := openMem(p)
	if err != nil {
		return nil, err
	}
	var ops []op
	var tables []string
	if perr, _ := safely(func() { tables, err = h.low.Tables() }); perr || err != nil {
		return nil, fmt.Errorf("Tables failed: %v", err)
	}
	add := func(o op) { ops = append(ops, o) }

	add(op{name: "Tables", kind: "Tables", run: func(h *handle, _ int) opResult {
		return runOp(func(c *collector) error {
			return withLow(h, lockLow, func() error {
				ts, err := h.low.Tables()
				for _, t := range ts {
					c.add([]hx.Value{t})
				}
				return err
			})
		}, 0)
	}})
	add(op{name: "Indexes", kind: "Indexes", run: func(h *handle, _ int) opResult {
		return runOp(func(c *collector) error {
			return withLow(h, lockLow, func() error {
				ts, err := h.low.Indexes()
				for _, t := range ts {
					c.add([]hx.Value{t})
				}
				return err
			})
		}, 0)
	}})

	nTab := 0
	for _, tn := range tables {
		tn := tn
		if strings.HasPrefix(tn, "sqlite_") {
			continue
		}
		s, serr := h.low.Schema(tn)
		if serr != nil {
			// a definition the library refuses: the calls on it stay in the catalogue - they have to fail the same
			// way every time (alone, after a fault, next to other goroutines)
			add(op{name: "Select/" + tn + " (refused definition)", kind: "Select", highLvl: true, table: tn, run: func(h *handle, _ int) opResult {
				return runOp(func(c *collector) error {
					return h.hi.Select(tn, func(r sqlittle.Row) { c.add(r) }, "rowid")
				}, 0)
			}})
			add(op{name: "Columns/" + tn + " (refused definition)", kind: "Columns", highLvl: true, table: tn, run: func(h *handle, _ int) opResult {
				return runOp(func(c *collector) error {
					cs, err := h.hi.Columns(tn)
					for _, x := range cs {
						c.add([]hx.Value{x})
					}
					return err
				}, 0)
			}})
			add(op{name: "Schema/" + tn + " (refused definition)", kind: "Schema", table: tn, run: func(h *handle, _ int) opResult {
				return runOp(func(c *collector) error {
					return withLow(h, lockLow, func() error {
						_, err := h.low.Schema(tn)
						return err
					})
				}, 0)
			}})
			continue
		}
		if maxPerKind > 0 && nTab >= maxPerKind {
			break
		}
		nTab++
		var cols []string
		for _, c := range s.Columns {
			cols = append(cols, c.Column)
		}
		selCols := cols
		if !s.WithoutRowid {
			selCols = append([]string{"rowid"}, cols...)
		}
		add(op{name: "Select/" + tn, kind: "Select", highLvl: true, table: tn, run: func(h *handle, _ int) opResult {
			return runOp(func(c *collector) error {
				return h.hi.Select(tn, func(r sqlittle.Row) { c.add(r) }, selCols...)
			}, 0)
		}})
		add(op{name: "SelectDone/" + tn, kind: "SelectDone", highLvl: true, canStop: true, table: tn, run: func(h *handle, stop int) opResult {
			return runOp(func(c *collector) error {
				return h.hi.SelectDone(tn, func(r sqlittle.Row) bool { return c.add(r) }, selCols...)
			}, stop)
		}})
		add(op{name: "Columns/" + tn, kind: "Columns", highLvl: true, table: tn, run: func(h *handle, _ int) opResult {
			return runOp(func(c *collector) error {
				cs, err := h.hi.Columns(tn)
				for _, x := range cs {
					c.add([]hx.Value{x})
				}
				return err
			}, 0)
		}})
		add(op{name: "Schema/" + tn, kind: "Schema", table: tn, run: func(h *handle, _ int) opResult {
			return runOp(func(c *collector) error {
				return withLow(h, lockLow, func() error {
					s, err := h.low.Schema(tn)
					if s != nil {
						for _, col := range s.Columns {
							c.add([]hx.Value{col.Column, col.Type})
						}
						for _, ix := range s.Indexes {
							c.add([]hx.Value{ix.Index})
						}
					}
					return err
				})
			}, 0)
		}})
		if !s.WithoutRowid {
			// rowids to look up: from a fault-free scan
			var ids []int64
			if t, err := h.low.Table(tn); err == nil {
				t.Scan(func(id int64, _ sdb.Record) bool { ids = append(ids, id); return false })
			}
			add(op{name: "Table.Scan/" + tn, kind: "Table.Scan", canStop: true, table: tn, run: func(h *handle, stop int) opResult {
				return runOp(func(c *collector) error {
					return withLow(h, lockLow, func() error {
						t, err := h.low.Table(tn)
						if err != nil {
							return err
						}
						return t.Scan(func(id int64, rec sdb.Record) bool {
							return c.add(append([]hx.Value{id}, rec...))
						})
					})
				}, stop)
			}})
			var pick []int64
			if len(ids) > 0 {
				pick = append(pick, ids[0], ids[len(ids)/2], ids[len(ids)-1], ids[len(ids)-1]+1)
			} else {
				pick = append(pick, 1)
			}
			for _, id := range pick {
				id := id
				add(op{name: fmt.Sprintf("SelectRowid/%s/%d", tn, id), kind: "SelectRowid", highLvl: true, table: tn, run: func(h *handle, _ int) opResult {
					return runOp(func(c *collector) error {
						r, err := h.hi.SelectRowid(tn, id, selCols...)
						h.keepLookup(c, fmt.Sprintf("SelectRowid(%s, %d)", tn, id), r)
						if r != nil {
							c.add(r)
						}
						return err
					}, 0)
				}})
				add(op{name: fmt.Sprintf("Table.Rowid/%s/%d", tn, id), kind: "Table.Rowid", table: tn, run: func(h *handle, _ int) opResult {
					return runOp(func(c *collector) error {
						return withLow(h, lockLow, func() error {
							t, err := h.low.Table(tn)
							if err != nil {
								return err
							}
							r, err := t.Rowid(id)
							if r != nil {
								c.add(r)
							}
							return err
						})
					}, 0)
				}})
			}
			if s.RowidPK && len(ids) > 0 {
				id := ids[len(ids)/2]
				add(op{name: fmt.Sprintf("PKSelect/%s/%d", tn, id), kind: "PKSelect", highLvl: true, table: tn, run: func(h *handle, _ int) opResult {
					return runOp(func(c *collector) error {
						return h.hi.PKSelect(tn, sqlittle.Key{id}, func(r sqlittle.Row) { c.add(r) }, selCols...)
					}, 0)
				}})
			}
		} else {
			add(op{name: "NonRowidTable.Scan/" + tn, kind: "Index.Scan", canStop: true, table: tn, run: func(h *handle, stop int) opResult {
				return runOp(func(c *collector) error {
					return withLow(h, lockLow, func() error {
						t, err := h.low.NonRowidTable(tn)
						if err != nil {
							return err
						}
						return t.Scan(func(rec sdb.Record) bool { return c.add(rec) })
					})
				}, stop)
			}})
			// PKSelect with keys from the table
			var recs []sdb.Record
			if t, err := h.low.NonRowidTable(tn); err == nil {
				t.Scan(func(rec sdb.Record) bool { recs = append(recs, recordClone(rec)); return len(recs) > 2000 })
			}
			if len(recs) > 0 {
				for _, n := range []int{1, len(s.PK)} {
					rec := recs[len(recs)/2]
					var key sqlittle.Key
					for i := 0; i < n && i < len(rec); i++ {
						key = append(key, rec[i])
					}
					n := n
					add(op{name: fmt.Sprintf("PKSelect/%s/prefix%d", tn, n), kind: "PKSelect", highLvl: true, table: tn, run: func(h *handle, _ int) opResult {
						return runOp(func(c *collector) error {
							return h.hi.PKSelect(tn, key, func(r sqlittle.Row) { c.add(r) }, selCols...)
						}, 0)
					}})
				}
			}
		}
		for _, si := range s.Indexes {
			in := si.Index
			icols := si.Columns
			add(op{name: "IndexedSelect/" + tn + "/" + in, kind: "IndexedSelect", highLvl: true, table: tn, index: in, run: func(h *handle, _ int) opResult {
				return runOp(func(c *collector) error {
					return h.hi.IndexedSelect(tn, in, func(r sqlittle.Row) { c.add(r) }, selCols...)
				}, 0)
			}})
			add(op{name: "Index.Scan/" + in, kind: "Index.Scan", canStop: true, table: tn, index: in, run: func(h *handle, stop int) opResult {
				return runOp(func(c *collector) error {
					return withLow(h, lockLow, func() error {
						ix, err := h.low.Index(in)
						if err != nil {
							return err
						}
						return ix.Scan(func(rec sdb.Record) bool { return c.add(rec) })
					})
				}, stop)
			}})
			var recs []sdb.Record
			if ix, err := h.low.Index(in); err == nil {
				ix.Scan(func(rec sdb.Record) bool { recs = append(recs, recordClone(rec)); return len(recs) > 5000 })
			}
			if len(recs) == 0 {
				continue
			}
			mid := recs[len(recs)/2]
			last := recs[len(recs)-1]
			nk := len(icols)
			if nk > len(mid) {
				nk = len(mid)
			}
			for _, n := range []int{1, nk} {
				if n < 1 {
					continue
				}
				var hkey sqlittle.Key
				for i := 0; i < n; i++ {
					hkey = append(hkey, mid[i])
				}
				lkey := dbKeyFromRecord(mid, icols, n)
				ukey := dbKeyFromRecord(last, icols, n)
				n := n
				add(op{name: fmt.Sprintf("IndexedSelectEq/%s/%s/prefix%d", tn, in, n), kind: "IndexedSelectEq", highLvl: true, table: tn, index: in, run: func(h *handle, _ int) opResult {
					return runOp(func(c *collector) error {
						return h.hi.IndexedSelectEq(tn, in, hkey, func(r sqlittle.Row) { c.add(r) }, selCols...)
					}, 0)
				}})
				add(op{name: fmt.Sprintf("Index.ScanEq/%s/prefix%d", in, n), kind: "Index.ScanEq", canStop: true, table: tn, index: in, run: func(h *handle, stop int) opResult {
					return runOp(func(c *collector) error {
						return withLow(h, lockLow, func() error {
							ix, err := h.low.Index(in)
							if err != nil {
								return err
							}
							return ix.ScanEq(lkey, func(rec sdb.Record) bool { return c.add(rec) })
						})
					}, stop)
				}})
				add(op{name: fmt.Sprintf("Index.ScanMin/%s/prefix%d", in, n), kind: "Index.ScanMin", canStop: true, table: tn, index: in, run: func(h *handle, stop int) opResult {
					return runOp(func(c *collector) error {
						return withLow(h, lockLow, func() error {
							ix, err := h.low.Index(in)
							if err != nil {
								return err
							}
							return ix.ScanMin(lkey, func(rec sdb.Record) bool { return c.add(rec) })
						})
					}, stop)
				}})
				add(op{name: fmt.Sprintf("Index.ScanRange/%s/prefix%d", in, n), kind: "Index.ScanRange", canStop: true, table: tn, index: in, run: func(h *handle, stop int) opResult {
					return runOp(func(c *collector) error {
						return withLow(h, lockLow, func() error {
							ix, err := h.low.Index(in)
							if err != nil {
								return err
							}
							return ix.ScanRange(lkey, ukey, func(rec sdb.Record) bool { return c.add(rec) })
						})
					}, stop)
				}})
			}
		}
	}
	return ops, nil
}

func recordClone(r sdb.Record) sdb.Record {
	out := make(sdb.Record, len(r))
	for i, v := range r {
		out[i] = hx.CloneValue(v)
	}
	return out
}

// isPrefix: got is a prefix of want (strict values).
func isPrefix(got, want []hx.Row) (bool, int) {
	if len(got) > len(want) {
		return false, len(want)
	}
	for i := range got {
		if !hx.RowEqualStrict(got[i], want[i]) {
			return false, i
		}
	}
	return true, -1
}

// sameRows: identical row sequences (strict value equality).
func sameRows(a, b []hx.Row) bool {
	if len(a) != len(b) {
		return false
	}
	ok, _ := isPrefix(a, b)
	return ok
}
