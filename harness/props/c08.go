//go:build verif

package props

import (
	gosql "database/sql"
	"encoding/binary"
	"fmt"
	"math/rand"
	"os"
	"path/filepath"
	"sort"
	"strings"
	"sync"
	"sync/atomic"
	"time"

	"github.com/alicebob/sqlittle"
	sdb "github.com/alicebob/sqlittle/db"
	_ "github.com/alicebob/sqlittle/driver"
	"github.com/anishathalye/porcupine"

	"verifharness/hx"
)

func init() { register("C08", "exploration", C08) }

// compareWholeDB compares everything a long-lived handle can read with
// SQLite's view of the file right now. Returns the first difference (key, what).
func compareWholeDB(o *hx.Oracle, path string, db *sqlittle.DB, low *sdb.Database, dropped []string) (string, string, int) {
	meta, err := hx.LoadMeta(o, path)
	if err != nil {
		return "INCONCLUSIVE", "reference meta: " + err.Error(), 0
	}
	d := &hx.DB{Path: path, Meta: meta, Gen: map[string]hx.GenIndexMeta{}}
	rows := 0
	for ti := range meta.Tables {
		t := &meta.Tables[ti]
		want, err := fullExpected(o, d, t)
		if err != nil {
			return "INCONCLUSIVE", "reference rows: " + err.Error(), 0
		}
		cols := t.ColNames()
		sel := cols
		if t.WR == 0 {
			sel = append([]string{t.RowidName()}, cols...)
		}
		got, err, pm := collectSelect(db, t.Name, sel)
		if pm != "" {
			return "panic", "Select panicked: " + pm, rows
		}
		if err != nil {
			return "read-error/Select", fmt.Sprintf("Select(%s): %v", t.Name, err), rows
		}
		if df := diffRows(want, got); df != "" {
			return "stale/Select/" + diffKind(want, got), fmt.Sprintf("Select(%s) differs from SQLite's current content: %s", t.Name, df), rows
		}
		rows += len(got)
		cs, err := db.Columns(t.Name)
		if err != nil || strings.Join(cs, "\x00") != strings.Join(cols, "\x00") {
			return "stale/Columns", fmt.Sprintf("Columns(%s) = %v (%v), SQLite has %v", t.Name, cs, err, cols), rows
		}
		// every index SQLite has must be usable, and ordered right
		for ii := range t.Indexes {
			ix := &t.Indexes[ii]
			if (t.WR != 0 && ix.Origin == "pk") || ix.Partial != 0 {
				continue
			}
			order, err := hx.OrderByIndex(ix, hx.GenIndexMeta{}, t.RowidName())
			if err != nil {
				continue
			}
			wi, err := o.Query(path, fmt.Sprintf("SELECT %s FROM %s ORDER BY %s", strings.Join(quoteCols(sel), ", "), hx.QuoteIdent(t.Name), order))
			if err != nil {
				return "INCONCLUSIVE", "reference index rows: " + err.Error(), rows
			}
			gi, err, pm := collectIndexed(db, t.Name, ix.Name, sel)
			if pm != "" {
				return "panic", "IndexedSelect panicked: " + pm, rows
			}
			if err != nil {
				return "read-error/IndexedSelect", fmt.Sprintf("IndexedSelect(%s, %s): %v", t.Name, ix.Name, err), rows
			}
			if df := diffRows(wi, gi); df != "" {
				return "stale/IndexedSelect/" + diffKind(wi, gi), fmt.Sprintf("IndexedSelect(%s, %s) differs from SQLite's current content: %s", t.Name, ix.Name, df), rows
			}
			rows += len(gi)
		}
		// the definition attached to a fresh low-level table handle is the current one
		if low != nil && t.WR == 0 {
			if err := low.RLock(); err == nil {
				var defCols []string
				var derr error
				if th, err := low.Table(t.Name); err == nil {
					if def, err := th.Def(); err == nil {
						for _, c := range def.Columns {
							defCols = append(defCols, c.Name)
						}
					} else {
						derr = err
					}
				} else {
					derr = err
				}
				low.RUnlock()
				if derr == nil && strings.Join(defCols, "\x00") != strings.Join(cols, "\x00") {
					return "stale/Table.Def", fmt.Sprintf("Table(%s).Def() has columns %v, SQLite has %v", t.Name, defCols, cols), rows
				}
			}
		}
		// an index sqlittle still lists although SQLite dropped it
		if low != nil {
			if err := low.RLock(); err == nil {
				s, err := low.Schema(t.Name)
				low.RUnlock()
				if err == nil {
					for _, si := range s.Indexes {
						found := false
						for _, ix := range t.Indexes {
							if hx.SameName(ix.Name, si.Index) {
								found = true
							}
						}
						if !found {
							return "stale/Schema/dropped-index-listed", fmt.Sprintf("Schema(%s) lists index %s which does not exist any more", t.Name, si.Index), rows
						}
					}
				}
			}
		}
	}
	// low-level API with explicit transaction: table list
	if low != nil {
		if err := low.RLock(); err != nil {
			return "read-error/RLock", err.Error(), rows
		}
		ts, err := low.Tables()
		low.RUnlock()
		if err != nil {
			return "read-error/Tables", err.Error(), rows
		}
		var want []string
		for _, t := range meta.Tables {
			want = append(want, hx.FoldName(t.Name))
		}
		var got []string
		for _, t := range ts {
			if !strings.HasPrefix(t, "sqlite_") {
				got = append(got, t)
			}
		}
		sort.Strings(want)
		sort.Strings(got)
		if strings.Join(want, "\x00") != strings.Join(got, "\x00") {
			return "stale/Tables", fmt.Sprintf("Tables() = %v, SQLite has %v", got, want), rows
		}
	}
	for _, name := range dropped {
		if _, err, _ := collectSelect(db, name, []string{"rowid"}); err == nil {
			return "stale/dropped-table-readable", fmt.Sprintf("Select(%s) succeeds although the table was dropped", name), rows
		}
	}
	return "", "", rows
}

type c08Write struct {
	kind  string
	stmts []string
}

func C08(run *hx.Run) {
	run.Rule = "monitor A: PRNG histories (read | committed write)* on ONE long-lived handle pair (high-level DB and low-level Database with explicit RLock/RUnlock); writes by real SQLite in another process drawn from insert / update / delete / bulk growth past the size at open / create+drop table / create+drop index / ALTER TABLE ADD COLUMN / VACUUM / incremental_vacuum / shrink, on databases below and above the 100-page cache; after every write EVERY table, index and the table list are read twice (cache vs file) and compared with SQLite's view of the file at that moment; each commit stamps meta.version so a stale read names the version it saw. monitor B: one sqlittle handle reads in a loop while two writer processes commit unique versions with busy-retry; the client-boundary history (single register) is checked with porcupine; mixed version tags inside one read are torn reads. monitor C: handles opened on a database without tables (schema format 0), first tables with DESC keys created under them by SQLite, whole-database comparison plus keyed lookups for every stored key after each of three committed states. distinct = (history, step) pairs + porcupine operations"
	run.Assumptions = append(stdAssumptions, "one sqlittle handle per process in monitor B (the same-process POSIX lock finding of C06 cannot leak in)")
	dir, cleanup := hx.ScratchDir("C08")
	defer cleanup()
	nHist, steps := 12, 40
	if run.Thorough() {
		nHist, steps = 200, 120
	}
	jobs := make(chan int, nHist)
	for i := 0; i < nHist; i++ {
		jobs <- i
	}
	close(jobs)
	var wg sync.WaitGroup
	for wi := 0; wi < nWorkers(); wi++ {
		wg.Add(1)
		go func() {
			defer wg.Done()
			o, err := hx.StartOracle()
			if err != nil {
				run.Inconclusive("oracle: " + err.Error())
				return
			}
			defer o.Close()
			for h := range jobs {
				c08History(run, o, dir, h, steps)
			}
		}()
	}
	wg.Wait()
	c08TransientFault(run, dir)
	c08CommitAtLockRequest(run, dir)
	c08BornEmpty(run, dir)
	nConc := 6
	if run.Thorough() {
		nConc = 60
	}
	for i := 0; i < nConc; i++ {
		c08Concurrent(run, dir, i)
	}
}

func c08History(run *hx.Run, o *hx.Oracle, dir string, h int, steps int) {
	rng := rand.New(rand.NewSource(run.Seed*9973 + int64(h)))
	path := filepath.Join(dir, fmt.Sprintf("h%d.sqlite", h))
	ps := []int{512, 1024, 4096, 512, 65536}[h%5]
	rows := []int{30, 400, 200, 1500, 300}[h%5]
	av := h % 3
	os.Remove(path)
	init := []string{
		fmt.Sprintf("PRAGMA page_size=%d", ps),
		fmt.Sprintf("PRAGMA auto_vacuum=%d", av),
		"CREATE TABLE meta(version INTEGER)",
		"INSERT INTO meta VALUES(0)",
		"CREATE TABLE t(id INTEGER PRIMARY KEY, v, ver INTEGER, pad TEXT)",
		"CREATE INDEX ix_t_v ON t(v)",
		fmt.Sprintf("WITH RECURSIVE c(i) AS (SELECT 1 UNION ALL SELECT i+1 FROM c WHERE i < %d) INSERT INTO t(id, v, ver, pad) SELECT i, (i*7919) %% 1000, 0, 'row' || i || substr('xxxxxxxxxxxxxxxxxxxxxxxxxxxxxxxxxxxxxxxxxxxxxxxxxxxxxxxxxxxxxxxxxxxxxxxxxxxxxxxx', 1, i %% 80) FROM c", rows),
		// rows and index entries with overflow chains (rewritten in place by the write kind rewrite-big)
		"CREATE TABLE b(id INTEGER PRIMARY KEY, ver INTEGER, body TEXT)",
		"CREATE INDEX ix_b_body ON b(body)",
		fmt.Sprintf("INSERT INTO b(ver, body) SELECT 0, substr(replace(hex(zeroblob(n)), '00', 'Aa'), 1, n) FROM (SELECT %d AS n UNION ALL SELECT %d UNION ALL SELECT 700 UNION ALL SELECT 5000 UNION ALL SELECT %d UNION ALL SELECT 9000)", ps+200, 3*ps, 2*ps+17),
		"CREATE TABLE w(k TEXT, n INTEGER, PRIMARY KEY(k, n)) WITHOUT ROWID",
		"INSERT INTO w VALUES('a',1),('b',2),('c',3)",
	}
	if err := o.Exec(path, init...); err != nil {
		run.Inconclusive("history db: " + err.Error())
		return
	}
	if h%2 == 1 {
		// the file change counter is a 32-bit number that wraps: these histories start a few commits before
		// 0xFFFFFFFF, so the counter the handle compares goes DOWN during the history (version-valid-for follows,
		// as SQLite writes it)
		if f, err := os.OpenFile(path, os.O_RDWR, 0); err == nil {
			var c [4]byte
			binary.BigEndian.PutUint32(c[:], 0xFFFFFFFF-uint32(1+h%4))
			f.WriteAt(c[:], 24)
			f.WriteAt(c[:], 92)
			f.Close()
			run.See("change_counter_start", "a few commits before the 32-bit wrap")
		}
	}
	db, err := sqlittle.Open(path)
	if err != nil {
		run.Violation("C08/open", "Open: "+err.Error(), nil)
		return
	}
	defer db.Close()
	// NOTE: a second handle in this process would drop the first one's POSIX locks
	// when closed; both stay open for the whole history and are used one at a time.
	low, err := sdb.OpenFile(path)
	if err != nil {
		run.Violation("C08/open-low", "OpenFile: "+err.Error(), nil)
		return
	}
	defer low.Close()
	// a prepared database/sql statement that lives as long as the history
	var stmt *gosql.Stmt
	if pool, err := gosql.Open("sqlittle", path); err == nil {
		pool.SetMaxOpenConns(1)
		defer pool.Close()
		if st, err := pool.Prepare("SELECT * FROM t"); err == nil {
			stmt = st
			defer st.Close()
		}
	}
	version := 0
	nextTab := 0
	var liveTabs, liveIdx, dropped []string
	altered := 0
	var hist []string
	fail := func(key, what string, step int) {
		run.Violation("C08/"+key, fmt.Sprintf("history %d (page size %d, %d rows, auto_vacuum %d) step %d after [%s]: %s", h, ps, rows, av, step, strings.Join(lastN(hist, 4), " ; "), what),
			hx.M{"history": hist, "page_size": ps, "rows": rows, "auto_vacuum": av, "step": step})
	}
	if key, what, _ := compareWholeDB(o, path, db, low, nil); key != "" {
		if key == "INCONCLUSIVE" {
			run.Inconclusive(what)
		} else {
			fail(key, what, 0)
		}
		return
	}
	for step := 1; step <= steps; step++ {
		version++
		var w c08Write
		switch k := rng.Intn(17); k {
		case 15:
			// the same index NAME with another definition (direction / collation / columns)
			def := []string{"v DESC", "v, pad COLLATE NOCASE", "pad COLLATE RTRIM DESC, v", "v"}[rng.Intn(4)]
			w = c08Write{"recreate-index-same-name", []string{"DROP INDEX IF EXISTS ix_t_v", "CREATE INDEX ix_t_v ON t(" + def + ")"}}
		case 14:
			// same lengths, same overflow pages, other bytes
			w = c08Write{"rewrite-big", []string{fmt.Sprintf("UPDATE b SET ver=%d, body=replace(body, substr(body, 1, 1), char(%d))", version, 66+version%25)}}
		case 13:
			nps := []int{512, 1024, 2048, 4096, 8192}[rng.Intn(5)]
			w = c08Write{"vacuum-new-page-size", []string{fmt.Sprintf("PRAGMA page_size=%d", nps), "VACUUM"}}
		case 0:
			w = c08Write{"insert", []string{fmt.Sprintf("INSERT INTO t(v, ver, pad) VALUES(%d, %d, 'ins')", rng.Intn(1000), version)}}
		case 1:
			w = c08Write{"update", []string{fmt.Sprintf("UPDATE t SET ver=%d, pad=pad||'u' WHERE (id %% %d) = 0", version, 2+rng.Intn(5))}}
		case 2:
			w = c08Write{"delete", []string{fmt.Sprintf("DELETE FROM t WHERE (id %% %d) = 1", 3+rng.Intn(7))}}
		case 3:
			n := 200 + rng.Intn(600)
			w = c08Write{"grow", []string{fmt.Sprintf("WITH RECURSIVE c(i) AS (SELECT 1 UNION ALL SELECT i+1 FROM c WHERE i < %d) INSERT INTO t(v, ver, pad) SELECT i %% 977, %d, 'grow' || i || 'yyyyyyyyyyyyyyyyyyyyyyyyyyyyyyyyyyyyyyyyyyyyyyyyyyyyyyyyyy' FROM c", n, version)}}
		case 4:
			name := fmt.Sprintf("x_%d", nextTab)
			nextTab++
			liveTabs = append(liveTabs, name)
			w = c08Write{"create-table", []string{fmt.Sprintf("CREATE TABLE %s(a, b TEXT)", name), fmt.Sprintf("INSERT INTO %s VALUES(%d,'n'),(2,'m')", name, version)}}
		case 5:
			if len(liveTabs) == 0 {
				version--
				continue
			}
			i := rng.Intn(len(liveTabs))
			name := liveTabs[i]
			liveTabs = append(liveTabs[:i], liveTabs[i+1:]...)
			dropped = append(dropped, name)
			w = c08Write{"drop-table", []string{"DROP TABLE " + name}}
		case 6:
			name := fmt.Sprintf("ix_dyn_%d", nextTab)
			nextTab++
			liveIdx = append(liveIdx, name)
			w = c08Write{"create-index", []string{fmt.Sprintf("CREATE INDEX %s ON t(%s)", name, []string{"ver", "pad", "v DESC, ver", "pad COLLATE NOCASE"}[rng.Intn(4)])}}
		case 7:
			if len(liveIdx) == 0 {
				version--
				continue
			}
			i := rng.Intn(len(liveIdx))
			name := liveIdx[i]
			liveIdx = append(liveIdx[:i], liveIdx[i+1:]...)
			w = c08Write{"drop-index", []string{"DROP INDEX " + name}}
		case 8:
			altered++
			w = c08Write{"alter-add-column", []string{fmt.Sprintf("ALTER TABLE t ADD COLUMN extra%d INTEGER DEFAULT %d", altered, altered)}}
		case 9:
			w = c08Write{"vacuum", []string{"VACUUM"}}
		case 10:
			w = c08Write{"shrink", []string{"DELETE FROM t WHERE id > (SELECT min(id)+20 FROM t)", "VACUUM"}}
		case 11:
			w = c08Write{"incremental-vacuum", []string{"DELETE FROM t WHERE (id % 2) = 0", "PRAGMA incremental_vacuum"}}
		case 12:
			w = c08Write{"update-wr", []string{fmt.Sprintf("INSERT OR REPLACE INTO w VALUES('k%d', %d)", version%7, version)}}
		default:
			w = c08Write{"none", nil}
		}
		if w.kind != "none" {
			stmts := append([]string{}, w.stmts...)
			// the version stamp goes in the same connection; VACUUM cannot run inside a transaction so statements run in autocommit
			stmts = append(stmts, fmt.Sprintf("UPDATE meta SET version=%d", version))
			if err := o.Exec(path, stmts...); err != nil {
				run.Inconclusive(fmt.Sprintf("history %d write %s failed: %v", h, w.kind, err))
				return
			}
		} else {
			version--
		}
		hist = append(hist, fmt.Sprintf("v%d:%s", version, w.kind))
		run.See("write_kind", w.kind)
		// a handle opened only now (while the long-lived ones stay open and idle) must see the latest state too
		if step%3 == 0 {
			if fresh, err := sqlittle.Open(path); err != nil {
				fail("read-error/fresh-handle-open", err.Error(), step)
				return
			} else {
				key, what, _ := compareWholeDB(o, path, fresh, nil, dropped)
				fresh.Close()
				run.Eval(1)
				if key != "" && key != "INCONCLUSIVE" {
					fail("fresh-handle/"+key, "a handle opened after the commit, while an older handle on the same file is open: "+what, step)
					return
				}
			}
		}
		// which call comes first after the commit rotates: an indexed read through ix_t_v (definition and root page
		// may both be new), Columns(), or the full comparison below
		switch first := rng.Intn(4); first {
		case 0, 1:
			var ixInfo *hx.IndexInfo
			var tInfo *hx.TableInfo
			if meta, err := hx.LoadMeta(o, path); err == nil {
				for ti := range meta.Tables {
					if meta.Tables[ti].Name == "t" {
						tInfo = &meta.Tables[ti]
						for ii := range tInfo.Indexes {
							if tInfo.Indexes[ii].Name == "ix_t_v" {
								ixInfo = &tInfo.Indexes[ii]
							}
						}
					}
				}
			}
			if ixInfo != nil {
				cols := tInfo.ColNames()
				sel := append([]string{tInfo.RowidName()}, cols...)
				if order, err := hx.OrderByIndex(ixInfo, hx.GenIndexMeta{}, tInfo.RowidName()); err == nil {
					if want, err := o.Query(path, fmt.Sprintf("SELECT %s FROM t ORDER BY %s", strings.Join(quoteCols(sel), ", "), order)); err == nil {
						var got []hx.Row
						var gerr error
						var pm string
						if first == 0 {
							got, gerr, pm = collectIndexed(db, "t", "ix_t_v", sel)
						} else if len(want) > 0 {
							// equality on the first row's key columns
							kc := ixInfo.KeyCols()
							var key sqlittle.Key
							okKey := true
							for _, c := range kc {
								found := false
								for ci, name := range sel {
									if c.Name != nil && name == *c.Name {
										key = append(key, want[0][ci])
										found = true
									}
								}
								if !found {
									okKey = false
								}
							}
							if okKey {
								var conds []string
								for i, c := range kc {
									conds = append(conds, fmt.Sprintf("(+%s) COLLATE %s IS ?%d", hx.QuoteIdent(*c.Name), *c.Coll, i+1))
								}
								want, err = o.Query(path, fmt.Sprintf("SELECT %s FROM t WHERE %s ORDER BY %s", strings.Join(quoteCols(sel), ", "), strings.Join(conds, " AND "), order), []hx.Value(key)...)
								if err == nil {
									got, gerr, pm = collectIndexedEq(db, "t", "ix_t_v", key, sel)
								} else {
									want, got = nil, nil
								}
							} else {
								want, got = nil, nil
							}
						}
						run.Eval(1)
						opn := []string{"IndexedSelect", "IndexedSelectEq"}[first]
						if pm != "" {
							fail("panic", opn+" as the first call after the commit: "+firstLines(pm, 2), step)
							return
						}
						if gerr != nil {
							fail("read-error/"+opn+"-first-call/"+w.kind, fmt.Sprintf("%s(t, ix_t_v) as the first call after the commit: %v", opn, gerr), step)
							return
						}
						if df := diffRows(want, got); df != "" {
							fail("stale/"+opn+"-first-call", fmt.Sprintf("%s(t, ix_t_v) as the first call after the commit differs from SQLite's current content: %s", opn, df), step)
							return
						}
						run.See("first_call_after_commit", opn)
					}
				}
			}
		}
		if rng.Intn(2) == 0 {
			wantCols, err := o.Query(path, "SELECT name FROM pragma_table_info('t') ORDER BY cid")
			if err == nil {
				cs, cerr := db.Columns("t")
				var wc []string
				for _, r := range wantCols {
					wc = append(wc, r[0].(string))
				}
				run.Eval(1)
				if cerr != nil || strings.Join(cs, "\x00") != strings.Join(wc, "\x00") {
					fail("stale/Columns-first-call", fmt.Sprintf("Columns(t) as the first call after the commit = %v (%v), SQLite has %v", cs, cerr, wc), step)
					return
				}
			}
		}
		// every read twice: first from the file, then (mostly) from the cache
		for pass := 0; pass < 2; pass++ {
			key, what, n := compareWholeDB(o, path, db, low, dropped)
			run.Eval(1)
			run.Distinct(fmt.Sprintf("%d/%d/%d", h, step, pass))
			if key == "INCONCLUSIVE" {
				run.Inconclusive(what)
				return
			}
			if key != "" {
				if strings.HasPrefix(key, "read-error") {
					key += "/" + w.kind
				}
				fail(key, what, step)
				return
			}
			run.Count("rows_compared", n)
		}
		// the prepared statement sees the current columns and row count
		if stmt != nil && step%2 == 0 {
			wantCols, err1 := o.Query(path, "SELECT name FROM pragma_table_info('t') ORDER BY cid")
			wantN, err2 := o.Query(path, "SELECT count(*) FROM t")
			if err1 == nil && err2 == nil {
				rs, err := stmt.Query()
				run.Eval(1)
				if err != nil {
					fail("read-error/prepared-statement/"+w.kind, "prepared SELECT * FROM t: "+err.Error(), step)
					return
				}
				cols, _ := rs.Columns()
				n := int64(0)
				for rs.Next() {
					n++
				}
				rerr := rs.Err()
				rs.Close()
				var wc []string
				for _, r := range wantCols {
					wc = append(wc, r[0].(string))
				}
				if rerr != nil || strings.Join(cols, "\x00") != strings.Join(wc, "\x00") || n != wantN[0][0].(int64) {
					fail("stale/prepared-statement", fmt.Sprintf("prepared SELECT * FROM t: columns %v, %d rows, err %v; SQLite now has columns %v and %v rows", cols, n, rerr, wc, wantN[0][0]), step)
					return
				}
			}
		}
		// the version the handle sees must be the latest
		if got, err, _ := collectSelect(db, "meta", []string{"version"}); err != nil || len(got) != 1 || got[0][0] != int64(version) {
			fail("stale/version", fmt.Sprintf("meta.version read as %v (err %v), latest commit is %d", got, err, version), step)
			return
		}
	}
	// last step of some histories: another connection switches the database to WAL and commits there
	// (connection kept open, WAL not merged). The then-current content is not readable any more by a
	// rollback-journal reader: every read must fail, none may return the remembered state.
	if h%2 == 0 {
		if err := o.Open("walconn", path, 1); err == nil {
			if err := o.ExecConn("walconn", "PRAGMA journal_mode=WAL", "INSERT INTO t(v, ver, pad) VALUES(1, 99999, 'only in the WAL')"); err == nil {
				for _, name := range []string{"t", "meta"} {
					got, err, _ := collectSelect(db, name, []string{"rowid"})
					run.Eval(1)
					if err == nil {
						fail("stale/after-switch-to-wal", fmt.Sprintf("the database was switched to WAL mode by another connection; Select(%s) on the long-lived handle still returns %d rows and no error", name, len(got)), steps+1)
						break
					}
				}
				run.See("write_kind", "switch-to-wal")
			}
			o.CloseConn("walconn")
		}
	}
	pages, _ := o.Query(path, "PRAGMA page_count")
	if len(pages) == 1 {
		if n, _ := pages[0][0].(int64); n > 100 {
			run.See("database_size", "above-100-page-cache")
		} else {
			run.See("database_size", "below-100-page-cache")
		}
	}
	run.Count("histories", 1)
	if h < 3 {
		run.Sample(hx.M{"history": h, "page_size": ps, "steps": hist})
	}
}

func lastN(s []string, n int) []string {
	if len(s) > n {
		return s[len(s)-n:]
	}
	return s
}

type regInput struct {
	Write bool
	V     int
}

// c08Concurrent: linearizability of version reads against concurrent commits.
func c08Concurrent(run *hx.Run, dir string, idx int) {
	path := filepath.Join(dir, fmt.Sprintf("conc%d.sqlite", idx))
	os.Remove(path)
	ow, err := hx.StartOracle()
	if err != nil {
		run.Inconclusive("oracle: " + err.Error())
		return
	}
	defer ow.Close()
	ow2, err := hx.StartOracle()
	if err != nil {
		run.Inconclusive("oracle: " + err.Error())
		return
	}
	defer ow2.Close()
	ps := []int{512, 4096, 1024}[idx%3]
	if err := makeVersionedDB(ow, path, ps, 60+40*(idx%4)); err != nil {
		run.Inconclusive("concurrent db: " + err.Error())
		return
	}
	db, err := sqlittle.Open(path)
	if err != nil {
		run.Violation("C08/concurrent/open", err.Error(), nil)
		return
	}
	defer db.Close()
	for _, o := range []*hx.Oracle{ow, ow2} {
		if err := o.Open("w", path, 5.0); err != nil {
			run.Inconclusive("writer conn: " + err.Error())
			return
		}
	}
	var mu sync.Mutex
	var ops []porcupine.Operation
	start := time.Now()
	now := func() int64 { return int64(time.Since(start)) }
	var stop int32
	var wg sync.WaitGroup
	nWrites := 25
	for wi, o := range []*hx.Oracle{ow, ow2} {
		wg.Add(1)
		go func(wi int, o *hx.Oracle) {
			defer wg.Done()
			for i := 0; i < nWrites; i++ {
				v := 1 + 2*i + wi
				call := now()
				err := o.ExecConn("w", "BEGIN IMMEDIATE", fmt.Sprintf("UPDATE t SET ver=%d", v), fmt.Sprintf("UPDATE meta SET version=%d", v), "COMMIT")
				ret := now()
				if err != nil {
					// the outcome is unknown (it may have committed): keep it open to the end
					o.ExecConn("w", "ROLLBACK")
					ret = int64(time.Hour)
					run.Count("writes_with_unknown_outcome", 1)
				}
				mu.Lock()
				ops = append(ops, porcupine.Operation{ClientId: wi, Input: regInput{true, v}, Call: call, Output: 0, Return: ret})
				mu.Unlock()
				time.Sleep(time.Duration(200+137*((i+wi)%5)) * time.Microsecond)
			}
		}(wi, o)
	}
	torn := ""
	readerDone := make(chan struct{})
	go func() {
		defer close(readerDone)
		for atomic.LoadInt32(&stop) == 0 {
			call := now()
			vers := map[int64]int{}
			err := db.Select("t", func(r sqlittle.Row) {
				if v, ok := r[0].(int64); ok {
					vers[v]++
				}
			}, "ver")
			ret := now()
			if err != nil {
				run.Count("reads_refused_by_lock", 1)
				time.Sleep(50 * time.Microsecond)
				continue
			}
			if len(vers) != 1 {
				torn = fmt.Sprintf("one Select saw rows of versions %v", vers)
				return
			}
			var v int64
			for k := range vers {
				v = k
			}
			mu.Lock()
			ops = append(ops, porcupine.Operation{ClientId: 2, Input: regInput{false, 0}, Call: call, Output: int(v), Return: ret})
			mu.Unlock()
		}
	}()
	wg.Wait()
	// a few more reads after the last commit
	time.Sleep(2 * time.Millisecond)
	atomic.StoreInt32(&stop, 1)
	<-readerDone
	run.Eval(1)
	if torn != "" {
		run.Violation("C08/concurrent/torn-read", torn, nil)
		return
	}
	model := porcupine.Model{
		Init: func() interface{} { return 0 },
		Step: func(state, input, output interface{}) (bool, interface{}) {
			in := input.(regInput)
			if in.Write {
				return true, in.V
			}
			return output.(int) == state.(int), state
		},
		DescribeOperation: func(input, output interface{}) string {
			in := input.(regInput)
			if in.Write {
				return fmt.Sprintf("commit(v%d)", in.V)
			}
			return fmt.Sprintf("read -> v%d", output.(int))
		},
	}
	mu.Lock()
	hist := append([]porcupine.Operation{}, ops...)
	mu.Unlock()
	reads := 0
	seen := map[int]bool{}
	for _, op := range hist {
		if !op.Input.(regInput).Write {
			reads++
			seen[op.Output.(int)] = true
		}
	}
	res, _ := porcupine.CheckOperationsVerbose(model, hist, 60*time.Second)
	run.See("porcupine_result", string(res))
	run.Count("concurrent_history_ops", len(hist))
	run.Count("concurrent_reads_observed", reads)
	run.Count("distinct_versions_observed_by_reads", len(seen))
	run.DistinctN(len(hist))
	switch res {
	case porcupine.Illegal:
		var lines []string
		sort.Slice(hist, func(a, b int) bool { return hist[a].Call < hist[b].Call })
		for _, op := range hist {
			lines = append(lines, fmt.Sprintf("[%d..%d] c%d %s", op.Call/1000, op.Return/1000, op.ClientId, model.DescribeOperation(op.Input, op.Output)))
		}
		run.Violation("C08/concurrent/not-linearizable", fmt.Sprintf("history %d of %d operations is not linearizable as a register (a read returned a version that was not the latest committed)", idx, len(hist)), hx.M{"history": lines})
	case porcupine.Unknown:
		run.Inconclusive("porcupine timed out on a history")
	}
	if idx == 0 {
		run.Sample(hx.M{"concurrent_history": idx, "operations": len(hist), "reads": reads, "versions_seen": len(seen), "result": string(res)})
	}
}

// c08TransientFault: the first access of a new read transaction fails (one-shot
// read fault on the header read); later accesses in the SAME transaction must
// still reflect the latest commit (or fail), never the state remembered from
// before the commit.
func c08TransientFault(run *hx.Run, dir string) {
	o := mustOracle(run)
	if o == nil {
		return
	}
	defer o.Close()
	for ci, ps := range []int{512, 4096} {
		path := filepath.Join(dir, fmt.Sprintf("tf%d.sqlite", ci))
		if err := makeVersionedDB(o, path, ps, 80); err != nil {
			run.Inconclusive("transient-fault db: " + err.Error())
			return
		}
		before, _ := os.ReadFile(path)
		if err := o.Exec(path, "UPDATE t SET ver=1, pad='changed'", "UPDATE meta SET version=1", "CREATE TABLE added(x)"); err != nil {
			run.Inconclusive("transient-fault write: " + err.Error())
			return
		}
		after, _ := os.ReadFile(path)
		for _, faultOn := range []int64{1, 2} {
			pg := hx.NewMemPager(append([]byte{}, before...))
			h, err := openMem(pg)
			if err != nil {
				continue
			}
			// transaction 1: populate header, schema and page caches from the old state
			scan := func() (vers map[int64]int, tables int, err error) {
				vers = map[int64]int{}
				ts, err := h.low.Tables()
				if err != nil {
					return vers, 0, err
				}
				t, err := h.low.Table("t")
				if err != nil {
					return vers, len(ts), err
				}
				err = t.Scan(func(_ int64, rec sdb.Record) bool {
					if len(rec) > 2 {
						if v, ok := rec[2].(int64); ok {
							vers[v]++
						}
					}
					return false
				})
				return vers, len(ts), err
			}
			h.low.RLock()
			v0, nt0, err := scan()
			h.low.RUnlock()
			if err != nil || v0[0] == 0 {
				run.Inconclusive("transient-fault: first transaction failed")
				continue
			}
			// another connection commits; our next header read fails once
			pg.Data = append([]byte{}, after...)
			pg.FaultAt = pg.Reads + faultOn
			h.low.RLock()
			_, _, e1 := scan()
			v2, nt2, e2 := scan()
			h.low.RUnlock()
			run.Eval(1)
			run.DistinctN(1)
			if !pg.FaultFired {
				run.Count("transient_fault_not_reached", 1)
				continue
			}
			if e1 == nil {
				run.Count("transient_fault_first_access_survived", 1)
			}
			if e2 == nil && (v2[0] > 0 || nt2 == nt0) {
				run.Violation("C08/stale/after-failed-first-access", fmt.Sprintf("page size %d: the first access of a new read transaction failed (%v); the next access in the same transaction then returned the state from BEFORE the last commit (row versions %v, %d tables; committed state has version 1 and %d tables)", ps, e1, v2, nt2, nt0+1), nil)
			} else {
				run.Count("transient_fault_cases_ok", 1)
			}
		}
	}
}

// c08CommitAtLockRequest: another connection commits at the last possible moment before a read transaction
// begins - between the call of the operation and its lock request (pager hook). The lock is granted after
// the commit has finished, so that read transaction must already show the new state. The handle is long-lived
// and warm: every page and the schema are cached from earlier reads, and the file is larger than the
// page cache so that a stale header would mix cached and fresh pages.
func c08CommitAtLockRequest(run *hx.Run, dir string) {
	o := mustOracle(run)
	if o == nil {
		return
	}
	defer o.Close()
	sizes := []int{1024}
	if run.Thorough() {
		sizes = []int{512, 1024, 4096}
	}
	for _, ps := range sizes {
		for _, nrows := range []int{60, 3000} {
			path := filepath.Join(dir, fmt.Sprintf("atlock-%d-%d.sqlite", ps, nrows))
			os.Remove(path)
			if err := makeVersionedDB(o, path, ps, nrows); err != nil {
				run.Inconclusive("commit-at-lock db: " + err.Error())
				return
			}
			h, err := c06Open(path, 0)
			if err != nil {
				run.Violation("C08/commit-at-lock-request/open", "open: "+err.Error(), nil)
				continue
			}
			version := 1000
			ops := []string{"Select", "IndexedSelect", "SelectRowid", "PKSelect", "IndexedSelectEq", "Columns", "Select-meta"}
			for round := 0; round < 3; round++ {
				for _, op := range ops {
					// warm: two full reads so that caches are as full as they get
					h.hi.Select("t", func(sqlittle.Row) {}, "id", "v", "ver", "pad")
					h.hi.IndexedSelect("t", "ix_t_v", func(sqlittle.Row) {}, "id", "v", "ver", "pad")
					h.hi.Select("meta", func(sqlittle.Row) {}, "version")
					version++
					committed := false
					var cerr error
					h.tp.PreLock = func() {
						if committed {
							return
						}
						committed = true
						stmts := []string{"BEGIN IMMEDIATE", fmt.Sprintf("UPDATE meta SET version=%d", version),
							fmt.Sprintf("UPDATE t SET ver=%d, v=(id*31+%d)%%1000", version, version), "COMMIT"}
						if op == "Columns" {
							stmts = []string{fmt.Sprintf("ALTER TABLE t ADD COLUMN extra%d DEFAULT %d", version, version)}
						}
						cerr = o.Exec(path, stmts...)
					}
					var vers []int64
					var cols []string
					var rerr error
					n := 0
					cb := func(r sqlittle.Row) {
						n++
						if v, ok := r[0].(int64); ok {
							vers = append(vers, v)
						}
					}
					switch op {
					case "Select":
						rerr = h.hi.Select("t", cb, "ver")
					case "IndexedSelect":
						rerr = h.hi.IndexedSelect("t", "ix_t_v", cb, "ver")
					case "SelectRowid":
						var r sqlittle.Row
						r, rerr = h.hi.SelectRowid("t", 5, "ver")
						if r != nil {
							cb(r)
						}
					case "PKSelect":
						rerr = h.hi.PKSelect("t", sqlittle.Key{int64(7)}, cb, "ver")
					case "IndexedSelectEq":
						// the row with id 9 has v=(9*31+version)%1000 in the new state only
						rerr = h.hi.IndexedSelectEq("t", "ix_t_v", sqlittle.Key{int64((9*31 + version) % 1000)}, cb, "ver")
					case "Columns":
						cols, rerr = h.hi.Columns("t")
					case "Select-meta":
						rerr = h.hi.Select("meta", cb, "version")
					}
					h.tp.PreLock = nil
					run.Eval(1)
					run.Distinct(fmt.Sprintf("atlock/%d/%d/%s/%d", ps, nrows, op, round))
					key := "C08/commit-at-lock-request/" + op
					detail := hx.M{"page_size": ps, "rows": nrows, "op": op, "version": version}
					switch {
					case !committed:
						run.Inconclusive("commit-at-lock: the lock request of " + op + " was never seen")
					case cerr != nil:
						run.Inconclusive("commit-at-lock: the injected commit failed: " + cerr.Error())
					case rerr != nil:
						run.Violation(key+"/error", fmt.Sprintf("%s failed although the commit had finished before its lock request: %v", op, rerr), detail)
					case op == "Columns":
						want := fmt.Sprintf("extra%d", version)
						if len(cols) == 0 || cols[len(cols)-1] != want {
							run.Violation(key+"/stale", fmt.Sprintf("a column was added and committed before the lock request of Columns; result %v lacks %s", cols, want), detail)
						}
					default:
						if n == 0 {
							run.Violation(key+"/stale", fmt.Sprintf("version %d was committed before the lock request of %s; the read found no row of it", version, op), detail)
						}
						for _, v := range vers {
							if v != int64(version) {
								run.Violation(key+"/stale", fmt.Sprintf("version %d was committed before the lock request of %s (page size %d, %d rows); the read returned a row of version %d", version, op, ps, nrows, v), detail)
								break
							}
						}
					}
				}
			}
			h.low.Close()
			run.See("commit_at_lock_request", fmt.Sprintf("ps=%d rows=%d", ps, nrows))
		}
	}
}

// c08BornEmpty: the handle is opened on (and has read) a database that has no tables yet - SQLite leaves the
// schema format field at 0 until the first CREATE - and another connection then creates the first tables, with
// DESC keys and indexes (which makes SQLite write format 4). Full scans do not depend on what the handle believes
// about directions; keyed lookups do, so each state is followed by equality lookups for every stored key,
// compared with SQLite's answer.
func c08BornEmpty(run *hx.Run, dir string) {
	o := mustOracle(run)
	if o == nil {
		return
	}
	defer o.Close()
	sizes := []int{1024, 4096}
	if run.Thorough() {
		sizes = []int{512, 1024, 2048, 4096, 8192, 65536}
	}
	for ci, ps := range sizes {
		for variant := 0; variant < 2; variant++ {
			path := filepath.Join(dir, fmt.Sprintf("born%d_%d.sqlite", ci, variant))
			os.Remove(path)
			if err := o.Exec(path, fmt.Sprintf("PRAGMA page_size=%d", ps), "PRAGMA user_version=1"); err != nil {
				run.Inconclusive("born-empty db: " + err.Error())
				return
			}
			db, err := sqlittle.Open(path)
			if err != nil {
				run.Violation("C08/born-empty/open", "Open of a database without tables: "+err.Error(), nil)
				continue
			}
			low, err := sdb.OpenFile(path)
			if err != nil {
				db.Close()
				run.Violation("C08/born-empty/open-low", "OpenFile of a database without tables: "+err.Error(), nil)
				continue
			}
			if variant == 1 {
				// this handle has read the empty state; variant 0 reads for the first time after the CREATEs
				if key, what, _ := compareWholeDB(o, path, db, low, nil); key != "" && key != "INCONCLUSIVE" {
					run.Violation("C08/born-empty/"+key, "empty state: "+what, nil)
				}
			}
			states := [][]string{
				{"CREATE TABLE t(id INTEGER PRIMARY KEY, v, s TEXT)",
					"CREATE INDEX ix_t_v ON t(v DESC)",
					"CREATE INDEX ix_t_sv ON t(s COLLATE NOCASE DESC, v)",
					"WITH RECURSIVE c(i) AS (SELECT 1 UNION ALL SELECT i+1 FROM c WHERE i < 600) INSERT INTO t SELECT i, (i*7919) % 97, 'k' || (i % 41) FROM c",
					"CREATE TABLE w(k INTEGER, n TEXT, p, PRIMARY KEY(k DESC, n)) WITHOUT ROWID",
					"WITH RECURSIVE c(i) AS (SELECT 1 UNION ALL SELECT i+1 FROM c WHERE i < 400) INSERT INTO w SELECT i % 53, 'n' || i, i FROM c"},
				{"DROP INDEX ix_t_v", "CREATE INDEX ix_t_v ON t(v)", "DELETE FROM w WHERE k % 2 = 0"},
				{"DROP INDEX ix_t_v", "CREATE INDEX ix_t_v ON t(v DESC, s DESC)", "VACUUM"},
			}
			for si, stmts := range states {
				if err := o.Exec(path, stmts...); err != nil {
					run.Inconclusive("born-empty write: " + err.Error())
					break
				}
				ctx := fmt.Sprintf("page size %d, variant %d, state %d", ps, variant, si+1)
				if key, what, n := compareWholeDB(o, path, db, low, nil); key != "" {
					if key == "INCONCLUSIVE" {
						run.Inconclusive(what)
					} else {
						run.Violation("C08/born-empty/"+key, ctx+": "+what, hx.M{"statements": stmts})
					}
					break
				} else {
					run.Eval(n)
				}
				bad := false
				for v := 0; v < 97 && !bad; v++ {
					want, err := o.Query(path, "SELECT id FROM t WHERE v = ?", int64(v))
					if err != nil {
						run.Inconclusive("born-empty reference: " + err.Error())
						bad = true
						break
					}
					got := 0
					var gerr error
					pn, msg := safely(func() {
						gerr = db.IndexedSelectEq("t", "ix_t_v", sqlittle.Key{int64(v)}, func(sqlittle.Row) { got++ }, "id")
					})
					if pn {
						run.Violation("C08/born-empty/panic", ctx+": IndexedSelectEq panicked: "+msg, nil)
						bad = true
					} else if gerr != nil {
						run.Violation("C08/born-empty/read-error/IndexedSelectEq", fmt.Sprintf("%s: IndexedSelectEq(t, ix_t_v, %d): %v", ctx, v, gerr), nil)
						bad = true
					} else if got != len(want) {
						run.Violation("C08/born-empty/stale/IndexedSelectEq", fmt.Sprintf("%s: IndexedSelectEq(t, ix_t_v, %d) gives %d rows, SQLite has %d (the handle was opened before the first table existed)", ctx, v, got, len(want)), hx.M{"statements": stmts})
						bad = true
					}
					run.Eval(1)
				}
				for k := 0; k < 53 && !bad; k++ {
					want, err := o.Query(path, "SELECT n FROM w WHERE k = ?", int64(k))
					if err != nil {
						run.Inconclusive("born-empty reference: " + err.Error())
						bad = true
						break
					}
					got := 0
					var gerr error
					pn, msg := safely(func() {
						gerr = db.PKSelect("w", sqlittle.Key{int64(k)}, func(sqlittle.Row) { got++ }, "n")
					})
					if pn {
						run.Violation("C08/born-empty/panic", ctx+": PKSelect panicked: "+msg, nil)
						bad = true
					} else if gerr != nil {
						run.Violation("C08/born-empty/read-error/PKSelect", fmt.Sprintf("%s: PKSelect(w, %d): %v", ctx, k, gerr), nil)
						bad = true
					} else if got != len(want) {
						run.Violation("C08/born-empty/stale/PKSelect", fmt.Sprintf("%s: PKSelect(w, %d) gives %d rows, SQLite has %d (the handle was opened before the first table existed)", ctx, k, got, len(want)), hx.M{"statements": stmts})
						bad = true
					}
					run.Eval(1)
				}
				if bad {
					break
				}
				run.Distinct(fmt.Sprintf("born-empty/%d/%d/%d", ps, variant, si))
				run.See("born_empty_state", fmt.Sprintf("state %d", si+1))
			}
			low.Close()
			db.Close()
		}
	}
}
