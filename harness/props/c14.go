//go:build verif

package props

import (
	"fmt"
	"math"
	"os"
	"path/filepath"
	"strings"

	"github.com/alicebob/sqlittle"
	sdb "github.com/alicebob/sqlittle/db"

	"verifharness/hx"
)

func init() { register("C14", "exploration", C14) }

func varintLen(v uint64) int { return len(hx.VarintMin(v)) }

func C14(run *hx.Run) {
	run.Rule = "workload 1 (SQLite-written): per page size a database whose rows sweep the payload length - every length 0..3*pagesize for 512 and 1024-byte pages (exhaustive), the X-1,X,X+1 / M / K-flip neighbourhoods for the others - in table-leaf, index (leaf and interior) and WITHOUT ROWID cells, plus every integer serial width at its sign/magnitude boundaries (as values and as rowids of 1..9 varint bytes), float bit-pattern classes, 200-column records (header > 127 bytes) and multi-megabyte blobs (4-byte payload-size and serial-type varints); every value read through Select / IndexedSelect / low-level scans must be bit-identical to SQLite's. workload 2 (hand-built pages): an independent encoder writes single-table files with non-minimal 2..9-byte varints in the payload-size, rowid, header-size and serial-type positions, forced integer serial widths and exact-fit overflow chains; the same file is read by SQLite and by sqlittle. distinct = distinct (page size, table, row) values compared + distinct hand-built cells"
	run.Assumptions = append(stdAssumptions, "hand-built files SQLite itself rejects are skipped and counted")
	var profiles []hx.M
	for _, ps := range hx.AllPageSizes {
		m := hx.M{"kind": "decode", "page_size": ps, "rows": 0}
		if ps <= 1024 {
			m["exhaustive"] = true
		}
		if run.Thorough() && ps <= 4096 {
			m["exhaustive"] = true
		}
		if run.Thorough() && ps > 4096 {
			m["spread"] = 48 // wider neighbourhoods of every threshold, K-flips up to 5 overflow pages
		}
		if ps == 512 || ps == 65536 || run.Thorough() {
			m["huge"] = []int{1 << 20, 3_000_000}
		}
		if run.Thorough() && ps == 512 {
			m["huge"] = []int{1 << 20, 3_000_000, 1<<21 + 1, 1 << 24} // 4-byte varint boundaries of payload size and serial type
		}
		profiles = append(profiles, m)
	}
	forEachProfile(run, profiles, func(w *worker, d *hx.DB, idx int) {
		data, _ := os.ReadFile(d.Path)
		db, err := sqlittle.Open(d.Path)
		if err != nil {
			run.Violation("C14/open", "Open failed: "+err.Error(), d.Profile)
			return
		}
		defer db.Close()
		low, err := sdb.OpenFile(d.Path)
		if err != nil {
			run.Violation("C14/open-low", "OpenFile failed: "+err.Error(), nil)
			return
		}
		defer low.Close()
		ps := d.PageSize()
		for ti := range d.Meta.Tables {
			t := &d.Meta.Tables[ti]
			full, err := fullExpected(w.o, d, t)
			if err != nil {
				run.Inconclusive("reference query failed: " + err.Error())
				continue
			}
			cols := t.ColNames()
			sel := cols
			if t.WR == 0 {
				sel = append([]string{"rowid"}, cols...)
			}
			got, err, pm := collectSelect(db, t.Name, sel)
			run.Eval(1)
			key := fmt.Sprintf("C14/Select/%s", t.Name)
			detail := hx.M{"page_size": ps, "table": t.Name}
			switch {
			case pm != "":
				run.Violation(key+"/"+pmKind(pm), pm, detail)
			case err != nil:
				run.Violation(key+"/error", fmt.Sprintf("Select(%s) at page size %d: %v", t.Name, ps, err), detail)
			default:
				if df := c14Diff(full, got); df != "" {
					run.Violation(key+"/value", fmt.Sprintf("page size %d, table %s: %s", ps, t.Name, df), detail)
				} else {
					run.Count("values_compared", len(got)*len(sel))
					for _, r := range got {
						run.DistinctN(len(r))
						for _, v := range r {
							run.See("storage_class", hx.Class(v))
						}
					}
				}
			}
			// indexes
			for ii := range t.Indexes {
				ix := &t.Indexes[ii]
				if t.WR != 0 && ix.Origin == "pk" {
					continue
				}
				order, oerr := hx.OrderByIndex(ix, hx.GenIndexMeta{})
				if oerr != nil {
					continue
				}
				want, err := w.o.Query(d.Path, fmt.Sprintf("SELECT %s FROM %s ORDER BY %s", strings.Join(quoteCols(sel), ", "), hx.QuoteIdent(t.Name), order))
				if err != nil {
					run.Inconclusive("reference index query failed: " + err.Error())
					continue
				}
				got, err, pm := collectIndexed(db, t.Name, ix.Name, sel)
				run.Eval(1)
				key := fmt.Sprintf("C14/IndexedSelect/%s", ix.Name)
				switch {
				case pm != "":
					run.Violation(key+"/"+pmKind(pm), pm, detail)
				case err != nil:
					run.Violation(key+"/error", fmt.Sprintf("IndexedSelect(%s) at page size %d: %v", ix.Name, ps, err), detail)
				default:
					if df := c14Diff(want, got); df != "" {
						run.Violation(key+"/value", fmt.Sprintf("page size %d, index %s: %s", ps, ix.Name, df), detail)
					}
				}
				// raw index records: the indexed value itself must decode exactly
				li, lerr := low.Index(ix.Name)
				if lerr == nil && len(ix.KeyCols()) == 1 && ix.KeyCols()[0].Name != nil {
					kname := *ix.KeyCols()[0].Name
					ki := -1
					for i, c := range sel {
						if c == kname {
							ki = i
						}
					}
					if ki >= 0 {
						i := 0
						bad := ""
						serr := li.Scan(func(rec sdb.Record) bool {
							if i < len(want) && len(rec) >= 1 && !hx.ValueEqualDoc(want[i][ki], rec[0]) {
								bad = fmt.Sprintf("index entry %d: key %s, SQLite %s", i, hx.ValueString(rec[0]), hx.ValueString(want[i][ki]))
								return true
							}
							i++
							return false
						})
						run.Eval(1)
						if serr != nil {
							run.Violation("C14/Index.Scan/"+ix.Name+"/error", fmt.Sprintf("Index.Scan(%s): %v", ix.Name, serr), detail)
						} else if bad != "" || i != len(want) {
							run.Violation("C14/Index.Scan/"+ix.Name+"/value", fmt.Sprintf("page size %d: %s (entries %d, SQLite %d)", ps, bad, i, len(want)), detail)
						} else {
							run.Count("index_entries_compared", i)
						}
					}
				}
			}
			// coverage: classify the cells of this table's tree with the walker
			c14Coverage(run, data, ps, t.Root, tableKind(t))
			for _, ix := range t.Indexes {
				if !(t.WR != 0 && ix.Origin == "pk") {
					c14Coverage(run, data, ps, ix.Root, "index")
				}
			}
		}
		run.Sample(hx.M{"page_size": ps, "exhaustive_lengths": d.Profile["exhaustive"] == true, "tables": len(d.Meta.Tables)})
	})
	c14LongSchema(run)
	c14HandBuilt(run)
	for _, need := range []string{"table-leaf/local", "table-leaf/overflow", "index-leaf/overflow", "index-interior/overflow"} {
		if run.Seen("cell_class", need) == 0 {
			run.Inconclusive("no " + need + " cell was covered")
		}
	}
}

func quoteCols(cols []string) []string {
	out := make([]string, len(cols))
	for i, c := range cols {
		if c == "rowid" || c == "_rowid_" || c == "oid" {
			out[i] = c
		} else {
			out[i] = hx.QuoteIdent(c)
		}
	}
	return out
}

// c14Diff is strict: only the documented integral-REAL normalisation is allowed.
func c14Diff(want, got []hx.Row) string {
	if df := diffRows(want, got); df != "" {
		return df
	}
	return ""
}

func c14Coverage(run *hx.Run, data []byte, ps, root int, kind string) {
	pages, err := hx.WalkTree(data, ps, root)
	if err != nil {
		run.Count("walker_failed", 1)
		return
	}
	xt := int64(ps - 35)
	xi := int64((ps-12)*64/255 - 23)
	for _, p := range pages {
		name := map[byte]string{0x0d: "table-leaf", 0x05: "table-interior", 0x0a: "index-leaf", 0x02: "index-interior"}[p.Kind]
		for _, c := range p.Cells {
			if p.Kind == 0x05 {
				run.See("rowid_varint_len", fmt.Sprint(c.RowidN))
				continue
			}
			cls := "local"
			if c.OvflOff > 0 {
				cls = "overflow"
				chain := hx.OverflowChain(data, ps, c.Overflow)
				switch {
				case len(chain) == 1:
					run.See("overflow_chain", "1")
				case len(chain) <= 3:
					run.See("overflow_chain", "2-3")
				case len(chain) <= 100:
					run.See("overflow_chain", "4-100")
				default:
					run.See("overflow_chain", ">100")
				}
			}
			run.See("cell_class", name+"/"+cls)
			x := xt
			if p.IsIndex() {
				x = xi
			}
			switch c.PayloadLen - x {
			case -1:
				run.See("threshold_case", fmt.Sprintf("%d/%s/X-1", ps, name))
			case 0:
				run.See("threshold_case", fmt.Sprintf("%d/%s/X", ps, name))
			case 1:
				run.See("threshold_case", fmt.Sprintf("%d/%s/X+1", ps, name))
			}
			run.See("payload_size_varint_len", fmt.Sprint(c.PLN))
			if p.Kind == 0x0d {
				run.See("rowid_varint_len", fmt.Sprint(c.RowidN))
			}
			base := (p.No-1)*ps + c.LocalOff
			if c.LocalLen > 0 && base+c.LocalLen <= len(data) {
				if rl, ok := hx.ParseRecordLayout(data[base : base+c.LocalLen]); ok {
					run.See("header_size_varint_len", fmt.Sprint(rl.HdrSizeN))
					for i, st := range rl.SerialTypes {
						if st < 12 {
							run.See("serial_type", fmt.Sprint(st))
						} else if st%2 == 0 {
							run.See("serial_type", "blob")
						} else {
							run.See("serial_type", "text")
						}
						run.See("serial_type_varint_len", fmt.Sprint(rl.SerialLens[i]))
					}
				}
			}
		}
	}
	_ = kind
}

// c14HandBuilt: files written by the harness's own encoder.
func c14HandBuilt(run *hx.Run) {
	o := mustOracle(run)
	if o == nil {
		return
	}
	defer o.Close()
	dir, cleanup := hx.ScratchDir("C14hb")
	defer cleanup()
	pageSizes := []int{512, 1024, 4096}
	if run.Thorough() {
		pageSizes = hx.AllPageSizes
	}
	type variant struct {
		name  string
		cells []hx.CellSpec
	}
	fileNo := 0
	for _, ps := range pageSizes {
		var variants []variant
		mk := func(rs hx.RecordSpec) []byte {
			b, err := hx.BuildRecord(rs)
			if err != nil {
				return nil
			}
			return b
		}
		base := []hx.Value{int64(300), "hello", []byte{1, 2, 3}}
		// 1. rowid varint lengths 1..9 (non-minimal)
		for n := 1; n <= 9; n++ {
			var cells []hx.CellSpec
			for i, rid := range []int64{5, 100, 127} {
				if _, ok := hx.VarintN(uint64(rid), n); ok {
					cells = append(cells, hx.CellSpec{Rowid: rid, RowidLen: n, Payload: mk(hx.RecordSpec{Values: []hx.Value{int64(i), "r", nil}})})
				}
			}
			if n == 9 {
				cells = append(cells, hx.CellSpec{Rowid: -5, Payload: mk(hx.RecordSpec{Values: base})}, hx.CellSpec{Rowid: -9223372036854775808, Payload: mk(hx.RecordSpec{Values: base})})
			}
			variants = append(variants, variant{fmt.Sprintf("rowid-varint-%dB", n), cells})
		}
		// 2. payload-size varint lengths
		for n := 1; n <= 9; n++ {
			rec := mk(hx.RecordSpec{Values: base})
			if _, ok := hx.VarintN(uint64(len(rec)), n); !ok {
				continue
			}
			variants = append(variants, variant{fmt.Sprintf("payload-size-varint-%dB", n), []hx.CellSpec{{Rowid: 1, Payload: rec, PayloadLenLen: n}, {Rowid: 2, Payload: mk(hx.RecordSpec{Values: []hx.Value{nil, nil, nil}})}}})
		}
		// 3. header-size varint lengths
		for n := 1; n <= 9; n++ {
			rec := mk(hx.RecordSpec{Values: base, HdrSizeLen: n})
			if rec == nil {
				continue
			}
			variants = append(variants, variant{fmt.Sprintf("header-size-varint-%dB", n), []hx.CellSpec{{Rowid: 7, Payload: rec}}})
		}
		// 4. serial-type varint lengths
		for n := 1; n <= 9; n++ {
			rec := mk(hx.RecordSpec{Values: base, SerialLens: []int{n, n, n}})
			if rec == nil {
				continue
			}
			variants = append(variants, variant{fmt.Sprintf("serial-type-varint-%dB", n), []hx.CellSpec{{Rowid: 9, Payload: rec}}})
		}
		// 5. forced integer serial widths with boundary values
		for _, st := range []int64{1, 2, 3, 4, 5, 6} {
			bits := map[int64]uint{1: 8, 2: 16, 3: 24, 4: 32, 5: 48, 6: 64}[st]
			var cells []hx.CellSpec
			vals := []int64{0, 1, -1, 5}
			if bits < 64 {
				vals = append(vals, (int64(1)<<(bits-1))-1, -(int64(1) << (bits - 1)), (int64(1)<<(bits-1))-2, -(int64(1)<<(bits-1))+1)
			} else {
				vals = append(vals, 9223372036854775807, -9223372036854775808)
			}
			for i, v := range vals {
				cells = append(cells, hx.CellSpec{Rowid: int64(i + 1), Payload: mk(hx.RecordSpec{Values: []hx.Value{v, v, v}, ForceSerials: []int64{st, st, st}})})
			}
			variants = append(variants, variant{fmt.Sprintf("int-serial-%d", st), cells})
		}
		// 6. exact-fit overflow chains and threshold payloads
		x := ps - 35
		u := ps
		m := (u-12)*32/255 - 23
		for _, total := range []int{x - 1, x, x + 1, m + (u - 4), m + 2*(u-4), x + (u - 4), x + (u - 4) + 1, x + (u - 4) - 1, m + 3*(u-4), 2 * u, m + (u - 4) + 1} {
			// one text column sized so that the whole record payload is exactly total
			var rec []byte
			for l := total; l >= 0 && l > total-12; l-- {
				r := mk(hx.RecordSpec{Values: []hx.Value{nil, strings.Repeat("e", l), nil}})
				if len(r) == total {
					rec = r
					break
				}
			}
			if rec == nil {
				continue
			}
			variants = append(variants, variant{fmt.Sprintf("payload-total-%d(X%+d)", total, total-x), []hx.CellSpec{{Rowid: 3, Payload: rec}}})
		}
		// 7. floats
		{
			var cells []hx.CellSpec
			for i, f := range []float64{0, 1.5, -2.25, 1e300, 5e-324, 1e15, 1e16} {
				cells = append(cells, hx.CellSpec{Rowid: int64(i + 1), Payload: mk(hx.RecordSpec{Values: []hx.Value{f, nil, int64(i)}})})
			}
			variants = append(variants, variant{"floats", cells})
		}
		// 8. an 8-byte float field holding a NaN bit pattern (SQLite never writes one, and reads it as NULL)
		{
			var cells []hx.CellSpec
			for i, bits := range []uint64{0x7ff8000000000000, 0xfff8000000000000, 0x7ff0000000000001, 0x7fffffffffffffff, 0xfff0000000000001} {
				cells = append(cells, hx.CellSpec{Rowid: int64(i + 1), Payload: mk(hx.RecordSpec{Values: []hx.Value{math.Float64frombits(bits), "after", int64(i)}})})
			}
			variants = append(variants, variant{"nan-bit-patterns", cells})
		}
		for _, v := range variants {
			ok := true
			for _, c := range v.cells {
				if c.Payload == nil {
					ok = false
				}
			}
			if !ok || len(v.cells) == 0 {
				run.Count("handbuilt_not_encodable", 1)
				continue
			}
			img, err := hx.BuildTableFile(ps, "CREATE TABLE t(a,b,c)", v.cells)
			if err != nil {
				run.Count("handbuilt_not_encodable", 1)
				continue
			}
			fileNo++
			path := filepath.Join(dir, fmt.Sprintf("hb%d.sqlite", fileNo))
			os.WriteFile(path, img, 0o644)
			want, err := o.Query(path, "SELECT rowid, a, b, c FROM t ORDER BY rowid")
			if err != nil {
				run.Count("handbuilt_rejected_by_sqlite", 1)
				run.See("sqlite_rejected", fmt.Sprintf("%d/%s: %v", ps, v.name, err))
				os.Remove(path)
				continue
			}
			if ic, err := o.Query(path, "PRAGMA integrity_check"); err != nil || len(ic) != 1 || ic[0][0] != "ok" {
				run.Count("handbuilt_failing_integrity_check", 1)
			}
			db, err := sqlittle.Open(path)
			if err != nil {
				run.Violation("C14/handbuilt/open", fmt.Sprintf("page size %d %s: Open: %v", ps, v.name, err), nil)
				os.Remove(path)
				continue
			}
			got, err, pm := collectSelect(db, "t", []string{"rowid", "a", "b", "c"})
			db.Close()
			os.Remove(path)
			run.Eval(1)
			kname := strings.Split(v.name, "(")[0]
			key := "C14/handbuilt/" + kname
			switch {
			case pm != "":
				run.Violation(key+"/panic", "panic: "+pm, nil)
			case err != nil:
				run.Violation(key+"/error", fmt.Sprintf("page size %d, %s: SQLite reads %d rows, sqlittle fails: %v", ps, v.name, len(want), err), hx.M{"page_size": ps, "variant": v.name})
			default:
				if df := diffRows(want, got); df != "" {
					run.Violation(key+"/value", fmt.Sprintf("page size %d, %s: %s", ps, v.name, df), hx.M{"page_size": ps, "variant": v.name})
				} else {
					run.Count("handbuilt_files_equal", 1)
					run.Distinct(fmt.Sprintf("hb/%d/%s", ps, v.name))
					run.See("handbuilt_variant", strings.Split(kname, "-total-")[0])
				}
			}
			if fileNo%17 == 0 {
				run.Sample(hx.M{"handbuilt": v.name, "page_size": ps, "cells": len(v.cells), "rows_sqlite": len(want)})
			}
		}
	}
}

// c14LongSchema: sqlite_master records around the local-payload thresholds while
// the schema still lives on page 1 (whose first 100 bytes are the file header).
func c14LongSchema(run *hx.Run) {
	o := mustOracle(run)
	if o == nil {
		return
	}
	defer o.Close()
	dir, cleanup := hx.ScratchDir("C14schema")
	defer cleanup()
	sizes := []int{512, 1024, 4096}
	if run.Thorough() {
		sizes = hx.AllPageSizes
	}
	n := 0
	for _, ps := range sizes {
		var lens []int
		for d := -160; d <= 120; d += 9 {
			lens = append(lens, ps+d)
		}
		for _, d := range []int{-137, -136, -135, -134, -133, -36, -35, -34, 2 * ps, 3*ps + 17} {
			lens = append(lens, ps+d)
		}
		for _, L := range lens {
			if L < 40 {
				continue
			}
			n++
			path := filepath.Join(dir, fmt.Sprintf("ls%d.sqlite", n))
			colname := "c" + strings.Repeat("n", L-24)
			ddl := fmt.Sprintf("CREATE TABLE ls(%s, b)", hx.QuoteIdent(colname))
			if err := o.Exec(path, fmt.Sprintf("PRAGMA page_size=%d", ps), ddl, "INSERT INTO ls VALUES(1,'one'),(2,'two'),(NULL, x'00ff')"); err != nil {
				run.Count("long_schema_rejected_by_sqlite", 1)
				continue
			}
			want, err := o.Query(path, "SELECT rowid, * FROM ls ORDER BY rowid")
			if err != nil {
				continue
			}
			db, err := sqlittle.Open(path)
			if err != nil {
				run.Violation("C14/long-schema/open", fmt.Sprintf("page size %d, CREATE text of %d bytes: Open: %v", ps, len(ddl), err), nil)
				continue
			}
			got, err, pm := collectSelect(db, "ls", []string{"rowid", colname, "b"})
			db.Close()
			os.Remove(path)
			run.Eval(1)
			run.Distinct(fmt.Sprintf("ls/%d/%d", ps, L))
			key := "C14/long-schema"
			switch {
			case pm != "":
				run.Violation(key+"/"+pmKind(pm), pm, nil)
			case err != nil:
				run.Violation(key+"/error", fmt.Sprintf("page size %d, sqlite_master record with a CREATE text of %d bytes: Select fails: %v (SQLite reads %d rows)", ps, len(ddl), err, len(want)), hx.M{"page_size": ps, "ddl_len": len(ddl)})
			default:
				if df := diffRows(want, got); df != "" {
					run.Violation(key+"/value", fmt.Sprintf("page size %d, CREATE text of %d bytes: %s", ps, len(ddl), df), nil)
				} else {
					run.Count("long_schema_databases_equal", 1)
				}
			}
		}
	}
}
