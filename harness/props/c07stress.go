//go:build verif

package props

import (
	"bytes"
	"encoding/json"
	"fmt"
	"math/rand"
	"os"
	"os/exec"
	"path/filepath"
	"strings"
	"sync"
	"sync/atomic"
	"syscall"
	"time"
	"unsafe"

	"github.com/alicebob/sqlittle"

	"verifharness/hx"
)

// Free-running part of C07/C08: one real SQLite writer commits (and sometimes
// rolls back) a stream of transactions as fast as it can while several reader
// PROCESSES (one sqlittle handle each - two handles on one file in one process
// is the C06 known finding) read as fast as they can. Nothing is stepped: the
// interleavings are the ones the kernel produces, at sub-system-call
// granularity, which the stepped schedules of C07 cannot reach (e.g. a commit
// landing between a reader's header check and its lock request).
//
// The database content is a pure function of the committed version V, so every
// successful read can be checked completely against the model:
//   - the rows are exactly state(V) for ONE V (no torn snapshot),
//   - V >= the last version whose COMMIT had returned before the read was called,
//   - V <= the last version whose transaction had been started when the read returned,
//   - no row of a transaction that was rolled back (those carry negative versions).
// The two bounds come from counters in a shared memory page written by the
// writer's driver; they are logical, not wall-clock.

func init() { workerMains["c07reader"] = c07ReaderMain }

const (
	c07clkCommitted = 0 // last version whose COMMIT returned
	c07clkStarted   = 1 // highest version a transaction was started for
	c07clkStop      = 2
)

type c07Clock struct {
	mem []byte
}

func c07OpenClock(path string, create bool) (*c07Clock, error) {
	flags := os.O_RDWR
	if create {
		flags |= os.O_CREATE | os.O_TRUNC
	}
	f, err := os.OpenFile(path, flags, 0o644)
	if err != nil {
		return nil, err
	}
	defer f.Close()
	if create {
		if err := f.Truncate(4096); err != nil {
			return nil, err
		}
	}
	mem, err := syscall.Mmap(int(f.Fd()), 0, 4096, syscall.PROT_READ|syscall.PROT_WRITE, syscall.MAP_SHARED)
	if err != nil {
		return nil, err
	}
	return &c07Clock{mem: mem}, nil
}

func (c *c07Clock) slot(i int) *int64 { return (*int64)(unsafe.Pointer(&c.mem[i*8])) }
func (c *c07Clock) Load(i int) int64  { return atomic.LoadInt64(c.slot(i)) }
func (c *c07Clock) Store(i int, v int64) {
	atomic.StoreInt64(c.slot(i), v)
}

// the model
func c07N(v int64) int64 { return 120 + (v%5)*10 }
func c07V(id, v int64) int64 {
	return (id*7919 + v*31) % 1000
}
func c07Pad(id, v int64) string { return strings.Repeat("0", int(2*(10+(id+v)%40))) }

func c07TxSQL(w int64, commit bool) []string {
	ver := w
	if !commit {
		ver = -w
	}
	n := c07N(w)
	end := "COMMIT"
	if !commit {
		end = "ROLLBACK"
	}
	return []string{
		"BEGIN IMMEDIATE",
		fmt.Sprintf("UPDATE meta SET version=%d", ver),
		fmt.Sprintf("DELETE FROM t WHERE id > %d", n),
		fmt.Sprintf("WITH RECURSIVE s(i) AS (SELECT 1 UNION ALL SELECT i+1 FROM s WHERE i < %d) INSERT OR IGNORE INTO t(id, v, ver, pad) SELECT i, 0, 0, '' FROM s", n),
		fmt.Sprintf("UPDATE t SET ver=%d, v=(id*7919+%d*31)%%1000, pad=hex(zeroblob(10+(id+%d)%%40))", ver, w, w),
		end,
	}
}

type c07ReaderStats struct {
	Reads      map[string]int64  `json:"reads"`      // op -> successful reads checked
	Refused    map[string]int64  `json:"refused"`    // error class -> count
	Versions   int               `json:"versions"`   // distinct versions observed
	Overlapped int64             `json:"overlapped"` // reads during which the committed counter moved
	Problems   map[string]string `json:"problems"`   // violation key -> first description
	Hits       map[string]int64  `json:"hits"`
}

func c07ErrClass(err error) string {
	s := err.Error()
	switch {
	case strings.Contains(s, "resource temporarily unavailable"):
		return "lock-refused"
	case strings.Contains(s, "hot journal"), strings.Contains(s, "crashed"):
		return "hot-journal"
	}
	if len(s) > 40 {
		s = s[:40]
	}
	return "other: " + s
}

// c07ReaderMain: vrun worker c07reader <db> <clock> <seed> <reopenEvery>
func c07ReaderMain(args []string) {
	path, clkPath := args[0], args[1]
	var seed, reopen int64
	fmt.Sscan(args[2], &seed)
	fmt.Sscan(args[3], &reopen)
	clk, err := c07OpenClock(clkPath, false)
	if err != nil {
		fmt.Println(`{"problems":{"C07/stress/harness":"clock: ` + err.Error() + `"}}`)
		return
	}
	rng := rand.New(rand.NewSource(seed))
	st := c07ReaderStats{Reads: map[string]int64{}, Refused: map[string]int64{}, Problems: map[string]string{}, Hits: map[string]int64{}}
	seen := map[int64]bool{}
	problem := func(key, what string) {
		st.Hits[key]++
		if _, ok := st.Problems[key]; !ok {
			st.Problems[key] = what
		}
	}
	var db *sqlittle.DB
	lastV := int64(0)
	cols := []string{"id", "v", "ver", "pad"}
	type rowT struct {
		id, v, ver int64
		pad        string
	}
	conv := func(r sqlittle.Row) (rowT, bool) {
		var x rowT
		if len(r) != 4 {
			return x, false
		}
		var ok1, ok2, ok3, ok4 bool
		x.id, ok1 = r[0].(int64)
		x.v, ok2 = r[1].(int64)
		x.ver, ok3 = r[2].(int64)
		x.pad, ok4 = r[3].(string)
		return x, ok1 && ok2 && ok3 && ok4
	}
	// checkRows: rows must be exactly the model state of one version within [lo, hi]; byIndex: ordered by (v, id)
	checkRows := func(op string, rows []rowT, lo, hi int64, full bool, byIndex bool) {
		if len(rows) == 0 {
			if full {
				problem("C07/stress/"+op+"/empty-result", fmt.Sprintf("%s returned no rows and no error (committed versions %d..%d all have rows)", op, lo, hi))
			}
			return
		}
		v := rows[0].ver
		for _, r := range rows {
			if r.ver != v {
				problem("C07/stress/"+op+"/torn-snapshot", fmt.Sprintf("%s returned rows of different transactions in one result: versions %d and %d (committed at call %d, started at return %d)", op, v, r.ver, lo, hi))
				return
			}
		}
		if v < 0 {
			problem("C07/stress/"+op+"/uncommitted-data", fmt.Sprintf("%s returned rows written by transaction %d, which was rolled back", op, -v))
			return
		}
		if v < lo {
			problem("C07/stress/"+op+"/stale", fmt.Sprintf("%s returned version %d although the COMMIT of version %d had returned before the call", op, v, lo))
		}
		if v > hi {
			problem("C07/stress/"+op+"/future", fmt.Sprintf("%s returned version %d although only %d had been started", op, v, hi))
		}
		if v < lastV {
			problem("C07/stress/"+op+"/went-back", fmt.Sprintf("%s returned version %d after this process had already read version %d", op, v, lastV))
		}
		if v > lastV {
			lastV = v
		}
		seen[v] = true
		if full && int64(len(rows)) != c07N(v) {
			problem("C07/stress/"+op+"/row-count", fmt.Sprintf("%s: version %d has %d rows, result has %d", op, v, c07N(v), len(rows)))
			return
		}
		for i, r := range rows {
			if r.id < 1 || r.id > c07N(v) || r.v != c07V(r.id, v) || r.pad != c07Pad(r.id, v) {
				problem("C07/stress/"+op+"/row-not-of-version", fmt.Sprintf("%s: row id=%d v=%d len(pad)=%d is not a row of version %d (all rows say ver=%d)", op, r.id, r.v, len(r.pad), v, v))
				return
			}
			if i > 0 {
				p := rows[i-1]
				if byIndex && !(p.v < r.v || (p.v == r.v && p.id < r.id)) || !byIndex && !(p.id < r.id) {
					problem("C07/stress/"+op+"/order", fmt.Sprintf("%s: rows %d and %d out of order in version %d", op, i-1, i, v))
					return
				}
			}
		}
	}
	n := int64(0)
	for clk.Load(c07clkStop) == 0 {
		n++
		if db == nil || (reopen > 0 && n%reopen == 0) {
			if db != nil {
				db.Close()
			}
			db, err = sqlittle.Open(path)
			if err != nil {
				st.Refused["open: "+c07ErrClass(err)]++
				db = nil
				continue
			}
		}
		lo := clk.Load(c07clkCommitted)
		var rows []rowT
		bad := false
		collect := func(r sqlittle.Row) {
			x, ok := conv(r)
			if !ok {
				bad = true
			}
			rows = append(rows, x)
		}
		var op string
		var rerr error
		full, byIndex := false, false
		var wantID int64
		switch rng.Intn(7) {
		case 0, 1:
			op, full = "Select", true
			rerr = db.Select("t", collect, cols...)
		case 2:
			op, full, byIndex = "IndexedSelect", true, true
			rerr = db.IndexedSelect("t", "ix_t_v", collect, cols...)
		case 3:
			op, byIndex = "IndexedSelectEq", true
			rerr = db.IndexedSelectEq("t", "ix_t_v", sqlittle.Key{int64(rng.Intn(1000))}, collect, cols...)
		case 4:
			op = "SelectRowid"
			wantID = 1 + int64(rng.Intn(120))
			var r sqlittle.Row
			r, rerr = db.SelectRowid("t", wantID, cols...)
			if rerr == nil && r != nil {
				collect(r)
			}
		case 5:
			op = "PKSelect"
			wantID = 1 + int64(rng.Intn(120))
			rerr = db.PKSelect("t", sqlittle.Key{wantID}, collect, cols...)
		default:
			op = "Select-meta"
			var got []int64
			rerr = db.Select("meta", func(r sqlittle.Row) {
				if v, ok := r[0].(int64); ok {
					got = append(got, v)
				} else {
					bad = true
				}
			}, "version")
			hi := clk.Load(c07clkStarted)
			if rerr == nil {
				switch {
				case len(got) != 1:
					problem("C07/stress/Select-meta/row-count", fmt.Sprintf("meta has one row, result has %d", len(got)))
				case got[0] < 0:
					problem("C07/stress/Select-meta/uncommitted-data", fmt.Sprintf("meta.version=%d was written by a transaction that was rolled back", got[0]))
				case got[0] < lo:
					problem("C07/stress/Select-meta/stale", fmt.Sprintf("meta.version=%d although the COMMIT of %d had returned before the call", got[0], lo))
				case got[0] > hi:
					problem("C07/stress/Select-meta/future", fmt.Sprintf("meta.version=%d although only %d had been started", got[0], hi))
				default:
					seen[got[0]] = true
				}
			}
		}
		hi := clk.Load(c07clkStarted)
		if rerr != nil {
			st.Refused[c07ErrClass(rerr)]++
			if len(rows) > 0 && op != "Select" && op != "IndexedSelect" {
				_ = rows
			}
			continue
		}
		if bad {
			problem("C07/stress/"+op+"/value-types", op+" returned a row whose values do not have the column types every committed state has")
			continue
		}
		st.Reads[op]++
		if clk.Load(c07clkCommitted) != lo {
			st.Overlapped++
		}
		if op == "Select-meta" {
			continue
		}
		if (op == "SelectRowid" || op == "PKSelect") && len(rows) == 0 {
			// ids 1..120 exist in every version
			problem("C07/stress/"+op+"/missing-row", fmt.Sprintf("%s(%d): no row and no error; id %d exists in every committed version", op, wantID, wantID))
			continue
		}
		if (op == "SelectRowid" || op == "PKSelect") && (len(rows) != 1 || rows[0].id != wantID) {
			problem("C07/stress/"+op+"/wrong-row", fmt.Sprintf("%s(%d) returned %d rows / id %d", op, wantID, len(rows), rows[0].id))
			continue
		}
		checkRows(op, rows, lo, hi, full, byIndex)
	}
	if db != nil {
		db.Close()
	}
	st.Versions = len(seen)
	out, _ := json.Marshal(st)
	fmt.Println("C07READER " + string(out))
}

// c07Stress drives the writer and the reader processes.
func c07Stress(run *hx.Run, transactions int, readers int) {
	dir, cleanup := hx.ScratchDir("C07stress")
	defer cleanup()
	exe := os.Getenv("VERIF_VRUN")
	if exe == "" {
		exe, _ = os.Executable()
	}
	rng := newRng(run, 7007)
	for round, ps := range []int{1024, 512, 4096} {
		if round > 0 && !run.Thorough() {
			break
		}
		path := filepath.Join(dir, fmt.Sprintf("s%d.sqlite", ps))
		clkPath := path + ".clock"
		o, err := hx.StartOracle()
		if err != nil {
			run.Inconclusive("stress oracle: " + err.Error())
			return
		}
		setup := []string{fmt.Sprintf("PRAGMA page_size=%d", ps),
			"CREATE TABLE t(id INTEGER PRIMARY KEY, v INTEGER, ver INTEGER, pad TEXT)", "CREATE INDEX ix_t_v ON t(v)",
			"CREATE TABLE meta(version INTEGER)", "INSERT INTO meta VALUES(0)"}
		if err := o.Exec(path, setup...); err != nil {
			run.Inconclusive("stress db: " + err.Error())
			o.Close()
			return
		}
		clk, err := c07OpenClock(clkPath, true)
		if err != nil {
			run.Inconclusive("stress clock: " + err.Error())
			o.Close()
			return
		}
		openWriter := func(i int) error {
			o.CloseConn("w")
			if err := o.Open("w", path, 3); err != nil {
				return err
			}
			jm := []string{"DELETE", "TRUNCATE", "PERSIST"}[i%3]
			cache := []int{2000, 3, 2000, 5}[i%4]
			sync := []string{"FULL", "OFF", "NORMAL"}[(i/2)%3]
			run.See("stress_writer_config", fmt.Sprintf("journal=%s cache=%d sync=%s", jm, cache, sync))
			return o.ExecConn("w", "PRAGMA journal_mode="+jm, fmt.Sprintf("PRAGMA cache_size=%d", cache), "PRAGMA synchronous="+sync)
		}
		if err := openWriter(0); err != nil {
			run.Inconclusive("stress writer: " + err.Error())
			o.Close()
			return
		}
		// version 1 before any reader starts
		clk.Store(c07clkStarted, 1)
		if err := o.ExecConn("w", c07TxSQL(1, true)...); err != nil {
			run.Inconclusive("stress first commit: " + err.Error())
			o.Close()
			return
		}
		clk.Store(c07clkCommitted, 1)
		var wg sync.WaitGroup
		stopped := make(chan struct{})
		outs := make([]string, readers)
		for r := 0; r < readers; r++ {
			wg.Add(1)
			go func(r int) {
				defer wg.Done()
				reopen := []int{0, 1, 7, 50, 0, 3}[r%6] // long-lived handles and handles reopened every n reads
				cmd := exec.Command(exe, "worker", "c07reader", path, clkPath, fmt.Sprint(run.Seed*100+int64(r)), fmt.Sprint(reopen))
				cmd.Env = append(os.Environ(), "GOTRACEBACK=all")
				var buf bytes.Buffer
				cmd.Stdout, cmd.Stderr = &buf, &buf
				if err := cmd.Start(); err != nil {
					outs[r] = "START: " + err.Error()
					return
				}
				done := make(chan error, 1)
				go func() { done <- cmd.Wait() }()
				select {
				case err := <-done:
					outs[r] = buf.String()
					if err != nil {
						outs[r] += "\nEXIT: " + err.Error()
					}
				case <-stopped:
					// generous wall-clock watchdog after the stop flag: a reader that does not finish its
					// current read is killed; that is inconclusive here (hangs are C05's subject)
					select {
					case <-done:
						outs[r] = buf.String()
					case <-time.After(60 * time.Second):
						cmd.Process.Kill()
						<-done
						outs[r] = "WATCHDOG"
					}
				}
			}(r)
		}
		v := int64(1)
		commits, rollbacks, busy := 0, 0, 0
		cutShort := false
		for i := 0; i < transactions; i++ {
			if i%20 == 19 {
				if err := openWriter(i / 20); err != nil {
					run.Inconclusive("stress writer reopen: " + err.Error())
					break
				}
			}
			commit := rng.Intn(4) != 0
			w := v + 1
			if commit {
				clk.Store(c07clkStarted, w)
			}
			err := o.ExecConn("w", c07TxSQL(w, commit)...)
			if err != nil {
				o.ExecConn("w", "ROLLBACK")
				busy++
				if busy >= 5 {
					// bounded: a writer that cannot get its locks (3 s busy timeout each time) ends the phase.
					// Whether readers starve it or the machine is overloaded cannot be told apart from here;
					// the stepped PENDING schedules above decide that question.
					// The phase is an additional monitor; cut short it simply observed less (reported in the
					// evidence). The verdict on "readers yield to writers" is the stepped schedules' business.
					run.Count("stress_phases_cut_short_writer_could_not_lock", 1)
					run.Sample(hx.M{"stress_cut_short": fmt.Sprintf("page size %d: the writer failed to get its locks %d times (3 s busy timeout each): %v", ps, busy, err), "after_transactions": i})
					cutShort = true
					break
				}
				if commit {
					// it may or may not have committed: ask
					if r, qerr := o.QueryConn("w", "SELECT version FROM meta"); qerr == nil && len(r) == 1 && r[0][0] == interface{}(w) {
						v = w
						clk.Store(c07clkCommitted, v)
					}
				}
				continue
			}
			if commit {
				v = w
				clk.Store(c07clkCommitted, v)
				commits++
			} else {
				rollbacks++
			}
		}
		clk.Store(c07clkStop, 1)
		close(stopped)
		wg.Wait()
		o.Close()
		run.Count("stress_commits", commits)
		run.Count("stress_rollbacks", rollbacks)
		run.Count("stress_writer_busy", busy)
		totalReads := int64(0)
		for r, out := range outs {
			if out == "WATCHDOG" {
				run.Inconclusive(fmt.Sprintf("free-running phase: reader process %d did not finish within 60 s after the stop flag", r))
				continue
			}
			i := strings.Index(out, "C07READER ")
			if i < 0 {
				run.Violation("C07/stress/reader-process-crash", fmt.Sprintf("reader process %d ended without a report: %s", r, clip(out, 1500)), nil)
				continue
			}
			var st c07ReaderStats
			line := out[i+len("C07READER "):]
			if j := strings.IndexByte(line, '\n'); j >= 0 {
				line = line[:j]
			}
			if err := json.Unmarshal([]byte(line), &st); err != nil {
				run.Inconclusive("reader report unreadable: " + err.Error())
				continue
			}
			for k, what := range st.Problems {
				run.Violation(k, fmt.Sprintf("free-running writer/readers, page size %d: %s (%d times in this reader)", ps, what, st.Hits[k]), hx.M{"page_size": ps, "reader": r})
			}
			for op, n := range st.Reads {
				run.SeeN("stress_reads_checked", op, n)
				totalReads += n
				run.Eval(int(n))
			}
			for c, n := range st.Refused {
				run.SeeN("stress_reads_refused", c, n)
			}
			run.Count("stress_reads_overlapping_a_commit", int(st.Overlapped))
			run.Count("stress_versions_observed_sum", st.Versions)
			if r == 0 {
				run.Sample(hx.M{"stress_reader": r, "page_size": ps, "reads": st.Reads, "refused": st.Refused, "distinct_versions": st.Versions, "overlapping_commit": st.Overlapped})
			}
		}
		run.DistinctN(commits)
		if totalReads < 50 && !cutShort {
			run.Inconclusive(fmt.Sprintf("free-running phase checked only %d reads", totalReads))
		}
	}
}
