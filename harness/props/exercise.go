//go:build verif

package props

import (
	"context"
	gosql "database/sql"
	"fmt"
	"regexp"
	"strings"
	"time"

	"github.com/alicebob/sqlittle"
	sdb "github.com/alicebob/sqlittle/db"
	_ "github.com/alicebob/sqlittle/driver"

	"verifharness/hx"
)

// exerciser runs every public operation on a (possibly hostile) database and
// records panics and budget overruns. It never trusts the file: all names and
// keys come from the file itself plus a fixed list of hints.
type exerciser struct {
	p         *hx.MemPager // nil in file mode
	h         *handle
	hints     []string // object names known from the seed
	findings  []exFinding
	cbBudget  int
	rdBudget  int64
	opsRun    int
	rowsSeen  int
	errsSeen  map[string]int
	deadline  time.Time
	curOp     string
	maxOpRows int
	rot       int
}

type exFinding struct {
	Kind string `json:"kind"` // panic | unbounded-reads | unbounded-callbacks
	Op   string `json:"op"`
	Site string `json:"site"`
	Msg  string `json:"msg"`
}

var frameRe = regexp.MustCompile(`github\.com/alicebob/sqlittle[^\s(]*\.[A-Za-z0-9_.()*]+`)

// panicSite extracts the innermost sqlittle frame and the panic class.
func panicSite(msg string) string {
	first := msg
	if i := strings.Index(msg, "\n"); i >= 0 {
		first = msg[:i]
	}
	class := first
	for _, pat := range []string{"slice bounds out of range", "index out of range", "nil pointer dereference", "makeslice", "impossible", "unhandled constraint", "interface conversion", "integer divide by zero", "stack overflow", "out of memory"} {
		if strings.Contains(first, pat) {
			class = pat
			break
		}
	}
	class = strings.ReplaceAll(class, " ", "-")
	if len(class) > 50 {
		class = class[:50]
	}
	site := "?"
	for _, line := range strings.Split(msg, "\n") {
		if strings.Contains(line, "verifharness") || strings.Contains(line, "runtime/debug") {
			continue
		}
		if strings.Contains(line, "github.com/alicebob/sqlittle") && !strings.HasPrefix(strings.TrimSpace(line), "/") {
			fn := strings.TrimSpace(line)
			if i := strings.LastIndex(fn, "("); i > 0 {
				fn = fn[:i]
			}
			site = strings.TrimPrefix(fn, "github.com/alicebob/sqlittle")
			site = strings.TrimPrefix(site, "/")
			break
		}
	}
	return site + "/" + class
}

var useRowCount int

func (e *exerciser) guard(opName string, f func() error) {
	useRowCount = 0
	e.curOp = opName
	e.opsRun++
	if e.p != nil {
		e.p.ResetCounters()
		e.p.Budget = e.rdBudget
	}
	callbackBudget = e.cbBudget
	var err error
	p, msg := safely(func() { err = f() })
	switch {
	case p && strings.HasPrefix(msg, "{}") || p && strings.Contains(msg, "callbackBudgetExceeded"):
		e.findings = append(e.findings, exFinding{"unbounded-callbacks", opKind(opName), opKind(opName), fmt.Sprintf("%s invoked its callback more than %d times", opName, e.cbBudget)})
	case p:
		e.findings = append(e.findings, exFinding{"panic", opName, panicSite(msg), msg})
	}
	if e.p != nil && e.p.Exceeded {
		e.findings = append(e.findings, exFinding{"unbounded-reads", opKind(opName), opKind(opName), fmt.Sprintf("%s read more than %d pages (image has %d bytes)", opName, e.rdBudget, len(e.p.Data))})
	}
	if err != nil {
		msg := err.Error()
		if len(msg) > 60 {
			msg = msg[:60]
		}
		e.errsSeen[msg]++
	}
}

// someFixed rotates through the fixed hostile keys so that every case uses a
// few and the whole list is covered across cases.
func (e *exerciser) someFixed(n int) []interface{} {
	// the key that sorts after every entry is always in: searches with it follow the right-most pointers
	out := []interface{}{fixedKeys[10]}
	for i := 0; i < n; i++ {
		out = append(out, fixedKeys[e.rot%len(fixedKeys)])
		e.rot++
	}
	return out
}

func opKind(name string) string {
	if i := strings.Index(name, "/"); i >= 0 {
		return name[:i]
	}
	return name
}

type cbCounter struct {
	n, max int
}

func (c *cbCounter) tick() {
	c.n++
	if c.max > 0 && c.n > c.max {
		panic(callbackBudgetExceeded{})
	}
}

var fixedKeys = []interface{}{nil, int64(0), int64(-1), int64(1) << 62, 1.5, "", "a", "abc ", []byte{}, []byte{0, 1},
	[]byte{0xff, 0xff, 0xff, 0xff, 0xff, 0xff, 0xff, 0xff}, // sorts after everything: searches end in the right-most child
	"\xf4\x8f\xbf\xbf\xf4\x8f\xbf\xbf"}

// exercise runs the whole catalogue.
func (e *exerciser) exercise() {
	h := e.h
	var tables, indexes []string
	e.guard("Tables", func() error { var err error; tables, err = h.low.Tables(); return err })
	e.guard("Indexes", func() error { var err error; indexes, err = h.low.Indexes(); return err })
	e.guard("Info", func() error { _, err := h.low.Info(); return err })
	seen := map[string]bool{}
	var names []string
	for _, n := range append(append(append([]string{}, tables...), e.hints...), "sqlite_master", "nosuch") {
		if !seen[n] {
			seen[n] = true
			names = append(names, n)
		}
	}
	if len(names) > 40 {
		names = names[:40]
	}
	for _, tn := range names {
		tn := tn
		var s *sdb.Schema
		e.guard("Schema/"+tn, func() error { var err error; s, err = h.low.Schema(tn); return err })
		var cols []string
		if s != nil {
			for _, c := range s.Columns {
				cols = append(cols, c.Column)
			}
		}
		var ids []int64
		var firstRecs []sdb.Record
		e.guard("Table.Def/"+tn, func() error {
			t, err := h.low.Table(tn)
			if err != nil {
				return err
			}
			_, err = t.Def()
			return err
		})
		e.guard("Table.Scan/"+tn, func() error {
			t, err := h.low.Table(tn)
			if err != nil {
				return err
			}
			c := cbCounter{max: e.cbBudget}
			return t.Scan(func(id int64, rec sdb.Record) bool {
				c.tick()
				e.rowsSeen++
				if len(ids) < 6 {
					ids = append(ids, id)
				}
				useRecord(rec)
				return false
			})
		})
		e.guard("NonRowidTable.Scan/"+tn, func() error {
			t, err := h.low.NonRowidTable(tn)
			if err != nil {
				return err
			}
			c := cbCounter{max: e.cbBudget}
			return t.Scan(func(rec sdb.Record) bool {
				c.tick()
				e.rowsSeen++
				if len(firstRecs) < 4 {
					firstRecs = append(firstRecs, recordClone(rec))
				}
				return false
			})
		})
		ids = append(ids, 0, 1, -1, 1<<62, -(1 << 63))
		for _, id := range ids {
			id := id
			e.guard("Table.Rowid/"+tn, func() error {
				t, err := h.low.Table(tn)
				if err != nil {
					return err
				}
				r, err := t.Rowid(id)
				useRecord(r)
				return err
			})
		}
		for i, id := range ids {
			if i > 3 {
				break
			}
			id := id
			e.guard("SelectRowid/"+tn, func() error {
				r, err := h.hi.SelectRowid(tn, id, append([]string{"rowid"}, cols...)...)
				useRow(r)
				return err
			})
		}
		e.guard("Columns/"+tn, func() error { _, err := h.hi.Columns(tn); return err })
		selCols := cols
		e.guard("Select/"+tn, func() error {
			c := cbCounter{max: e.cbBudget}
			return h.hi.Select(tn, func(r sqlittle.Row) { c.tick(); e.rowsSeen++; useRow(r) }, selCols...)
		})
		e.guard("Select-rowid/"+tn, func() error {
			c := cbCounter{max: e.cbBudget}
			return h.hi.Select(tn, func(r sqlittle.Row) { c.tick(); useRow(r) }, append([]string{"rowid"}, cols...)...)
		})
		e.guard("SelectDone/"+tn, func() error {
			c := cbCounter{max: e.cbBudget}
			return h.hi.SelectDone(tn, func(r sqlittle.Row) bool { c.tick(); return c.n >= 3 }, selCols...)
		})
		// primary key lookups with keys from the file and fixed keys
		var pkKeys []sqlittle.Key
		for _, r := range firstRecs {
			k := sqlittle.Key{}
			for i := 0; i < len(r) && i < 2; i++ {
				k = append(k, r[i])
			}
			pkKeys = append(pkKeys, k)
		}
		for _, id := range ids[:2] {
			pkKeys = append(pkKeys, sqlittle.Key{id})
		}
		for _, fk := range e.someFixed(2) {
			pkKeys = append(pkKeys, sqlittle.Key{fk}, sqlittle.Key{fk, fk})
		}
		pkKeys = append(pkKeys, sqlittle.Key{})
		for _, k := range pkKeys {
			k := k
			e.guard("PKSelect/"+tn, func() error {
				c := cbCounter{max: e.cbBudget}
				return h.hi.PKSelect(tn, k, func(r sqlittle.Row) { c.tick(); useRow(r) }, selCols...)
			})
		}
		var inames []string
		if s != nil {
			for _, si := range s.Indexes {
				inames = append(inames, si.Index)
			}
		}
		for _, in := range inames {
			in := in
			var recs []sdb.Record
			e.guard("IndexedSelect/"+tn, func() error {
				c := cbCounter{max: e.cbBudget}
				return h.hi.IndexedSelect(tn, in, func(r sqlittle.Row) { c.tick(); e.rowsSeen++; useRow(r) }, selCols...)
			})
			e.guard("Index.Scan/"+in, func() error {
				ix, err := h.low.Index(in)
				if err != nil {
					return err
				}
				c := cbCounter{max: e.cbBudget}
				return ix.Scan(func(rec sdb.Record) bool {
					c.tick()
					if len(recs) < 3 {
						recs = append(recs, recordClone(rec))
					}
					return false
				})
			})
			var keys []sqlittle.Key
			for ri, r := range recs {
				for n := 1; n <= len(r) && n <= 3 && ri < 2; n++ {
					k := sqlittle.Key{}
					for i := 0; i < n; i++ {
						k = append(k, r[i])
					}
					keys = append(keys, k)
				}
			}
			for _, fk := range e.someFixed(2) {
				keys = append(keys, sqlittle.Key{fk})
			}
			keys = append(keys, sqlittle.Key{}, sqlittle.Key{int64(1), "x", nil, 2.5, []byte("q"), int64(7)})
			for _, k := range keys {
				k := k
				e.guard("IndexedSelectEq/"+tn, func() error {
					c := cbCounter{max: e.cbBudget}
					return h.hi.IndexedSelectEq(tn, in, k, func(r sqlittle.Row) { c.tick(); useRow(r) }, selCols...)
				})
			}
		}
	}
	// low-level index operations on every index the file names
	inames := append(append([]string{}, indexes...), "nosuchindex")
	if len(inames) > 40 {
		inames = inames[:40]
	}
	for _, in := range inames {
		in := in
		var recs []sdb.Record
		e.guard("Index.Def/"+in, func() error {
			ix, err := h.low.Index(in)
			if err != nil {
				return err
			}
			_, err = ix.Def()
			return err
		})
		e.guard("Index.Scan/"+in, func() error {
			ix, err := h.low.Index(in)
			if err != nil {
				return err
			}
			c := cbCounter{max: e.cbBudget}
			return ix.Scan(func(rec sdb.Record) bool {
				c.tick()
				if len(recs) < 3 {
					recs = append(recs, recordClone(rec))
				}
				useRecord(rec)
				return false
			})
		})
		var keys []sdb.Key
		for ri, r := range recs {
			for n := 1; n <= len(r) && n <= 3 && ri < 2; n++ {
				k := sdb.Key{}
				for i := 0; i < n; i++ {
					k = append(k, sdb.KeyCol{V: r[i], Desc: i%2 == 1, Collate: []string{"", "nocase", "rtrim"}[i%3]})
				}
				keys = append(keys, k)
			}
		}
		for _, fk := range e.someFixed(2) {
			keys = append(keys, sdb.Key{{V: fk}}, sdb.Key{{V: fk, Desc: true, Collate: "nocase"}, {V: fk}})
		}
		keys = append(keys, sdb.Key{})
		for i, k := range keys {
			k := k
			to := keys[(i+1)%len(keys)]
			e.guard("Index.ScanMin/"+in, func() error {
				ix, err := h.low.Index(in)
				if err != nil {
					return err
				}
				c := cbCounter{max: e.cbBudget}
				return ix.ScanMin(k, func(rec sdb.Record) bool { c.tick(); return false })
			})
			e.guard("Index.ScanEq/"+in, func() error {
				ix, err := h.low.Index(in)
				if err != nil {
					return err
				}
				c := cbCounter{max: e.cbBudget}
				return ix.ScanEq(k, func(rec sdb.Record) bool { c.tick(); return false })
			})
			e.guard("Index.ScanRange/"+in, func() error {
				ix, err := h.low.Index(in)
				if err != nil {
					return err
				}
				c := cbCounter{max: e.cbBudget}
				return ix.ScanRange(k, to, func(rec sdb.Record) bool { c.tick(); return false })
			})
		}
	}
}

func useRecord(r sdb.Record) {
	if r == nil {
		return
	}
	useRow(sqlittle.Row(r))
}

// useRow pushes a delivered row through every Row.Scan* entry point.
func useRow(r sqlittle.Row) {
	if r == nil {
		return
	}
	// the conversions are exercised on the first rows of each operation only
	useRowCount++
	if useRowCount > 6 {
		return
	}
	r.ScanStrings()
	r.ScanString()
	r.ScanStringString()
	var s string
	var b []byte
	var i int64
	var f float64
	var bo bool
	var t time.Time
	var i32 int32
	var in int
	for _, d := range []interface{}{&s, &b, &i, &f, &bo, &t, &i32, &in} {
		args := make([]interface{}, 0, len(r)+1)
		for range r {
			args = append(args, d)
		}
		args = append(args, d)
		r.Scan(args...)
	}
}

// exerciseFile runs the file-pager and database/sql paths on an on-disk image.
func exerciseFile(path string, hints []string, cbBudget int) (findings []exFinding, rows int) {
	add := func(kind, op, site, msg string) { findings = append(findings, exFinding{kind, op, site, msg}) }
	var db *sqlittle.DB
	var err error
	if p, msg := safely(func() { db, err = sqlittle.Open(path) }); p {
		add("panic", "Open", panicSite(msg), msg)
		return
	}
	if err == nil {
		low, lerr := sdb.OpenFile(path)
		var tables []string
		if lerr == nil {
			if p, msg := safely(func() { tables, _ = low.Tables() }); p {
				add("panic", "Tables(file)", panicSite(msg), msg)
			}
			low.Close()
		}
		for _, tn := range append(tables, hints...) {
			tn := tn
			if p, msg := safely(func() {
				c := cbCounter{max: cbBudget}
				cols, _ := db.Columns(tn)
				db.Select(tn, func(r sqlittle.Row) { c.tick(); rows++; useRow(r) }, cols...)
			}); p {
				if strings.Contains(msg, "callbackBudgetExceeded") {
					add("unbounded-callbacks", "Select(file)", "Select(file)", "callback budget exceeded on "+tn)
				} else {
					add("panic", "Select(file)/"+tn, panicSite(msg), msg)
				}
			}
		}
		db.Close()
	}
	// database/sql
	if p, msg := safely(func() {
		sq, err := gosql.Open("sqlittle", path)
		if err != nil {
			return
		}
		defer sq.Close()
		for _, tn := range hints {
			ctx, cancel := context.WithTimeout(context.Background(), 20*time.Second)
			rs, err := sq.QueryContext(ctx, "SELECT * FROM "+tn)
			if err == nil {
				n := 0
				cols, _ := rs.Columns()
				for rs.Next() {
					vals := make([]interface{}, len(cols))
					ptrs := make([]interface{}, len(cols))
					for i := range vals {
						ptrs[i] = &vals[i]
					}
					rs.Scan(ptrs...)
					n++
					if n > cbBudget {
						add("unbounded-callbacks", "driver", "driver", "driver delivered more rows than the budget for "+tn)
						break
					}
				}
				rs.Err()
				rs.Close()
			}
			cancel()
		}
	}); p {
		add("panic", "driver", panicSite(msg), msg)
	}
	return
}

var _ = hx.Class
