//go:build verif

package props

import (
	"errors"
	"fmt"
	"os"
	"os/exec"
	"path/filepath"
	"runtime"
	"strings"
	"time"

	"github.com/alicebob/sqlittle"
	sdb "github.com/alicebob/sqlittle/db"

	"verifharness/hx"
)

func init() {
	register("C06", "exploration", C06)
	workerMains["c06peer"] = c06Peer
}

// corruptingPager wraps the real pager and damages one page read (page type
// byte), to produce the "corrupt page met mid-scan" exit path on real files.
type corruptingPager struct {
	sdb.VerifPager
	page int
	hits int
}

func (c *corruptingPager) Page(n int, pagesize int) ([]byte, error) {
	b, err := c.VerifPager.Page(n, pagesize)
	if n == c.page && len(b) > 0 {
		c.hits++
		b[0] = 0x77
	}
	return b, err
}

type c06Handle struct {
	tp   *hx.TracePager
	low  *sdb.Database
	hi   *sqlittle.DB
	corr *corruptingPager
}

func c06Open(path string, corruptPage int) (*c06Handle, error) {
	fp, err := sdb.VerifNewFilePager(path)
	if err != nil {
		return nil, err
	}
	var inner sdb.VerifPager = fp
	h := &c06Handle{}
	if corruptPage > 0 {
		h.corr = &corruptingPager{VerifPager: fp, page: corruptPage}
		inner = h.corr
	}
	h.tp = &hx.TracePager{Inner: inner}
	low, err := sdb.VerifOpenPager(h.tp, path+"-journal")
	if err != nil {
		fp.Close()
		return nil, err
	}
	h.low = low
	h.hi = sqlittle.VerifWrap(low)
	h.tp.Take() // events of Open are not part of any operation
	return h, nil
}

type c06Case struct {
	hotJournal bool // a hot-looking journal (no RESERVED lock anywhere) appears before the call
	name       string
	exit       string // normal | stop | error-column | error-table | error-corrupt | panic
	wantErr    bool
	corrupt    int
	run        func(h *c06Handle, atRow func())
}

// c06Peer: another PROCESS opening / reading / closing its own sqlittle handle.
func c06Peer(args []string) {
	path, action := args[0], args[1]
	db, err := sqlittle.Open(path)
	if err != nil {
		fmt.Println("peer open error:", err)
		return
	}
	if action == "select" || action == "all" {
		n := 0
		err := db.Select("t", func(sqlittle.Row) { n++ }, "id")
		fmt.Println("peer select:", n, err)
	}
	db.Close()
	fmt.Println("peer done")
}

func C06(run *hx.Run) {
	run.Rule = "every select-like operation (Select, SelectDone, SelectRowid, IndexedSelect, IndexedSelectEq, PKSelect, Columns) x exit path (normal, early stop, unknown column, unknown table, corrupt page met mid-scan, callback panic) runs over the REAL file pager wrapped in a tracing pager; the reader is stopped at EVERY trace event (lock, each page read, unlock) and inside EVERY row callback, and at each stop another process (a) probes with fcntl(F_GETLK, F_WRLCK) whether the shared range / pending byte could be write-locked and (b) a real SQLite connection attempts BEGIN IMMEDIATE; UPDATE; COMMIT with timeout 0: inside the interval the probe must see our read lock and the COMMIT must fail BUSY, after return both ranges must be free and the COMMIT must succeed; online trace checker: lock (page)* unlock, no page outside; final rows equal the pre-state. Also injected at stops: open / select / close of a second sqlittle handle in the same process and in another process. distinct = (operation, exit path, stop point)"
	run.Assumptions = append(stdAssumptions, "F_GETLK from another process and /proc/locks report POSIX locks truthfully", "two-party schedules enumerated at lock/page/callback granularity")
	dir, cleanup := hx.ScratchDir("C06")
	defer cleanup()
	probe, err := hx.StartOracle()
	if err != nil {
		run.Inconclusive("probe oracle: " + err.Error())
		return
	}
	defer probe.Close()
	writer, err := hx.StartOracle()
	if err != nil {
		run.Inconclusive("writer oracle: " + err.Error())
		return
	}
	defer writer.Close()
	type cfg struct{ ps, nrows int }
	sizes := []cfg{{1024, 120}}
	if run.Thorough() {
		sizes = []cfg{{512, 400}, {1024, 400}, {4096, 400}, {65536, 400}, {512, 2500}, {2048, 1500}, {8192, 3000}, {16384, 1200}, {32768, 800}}
	}
	for ci, c := range sizes {
		ps, nrows := c.ps, c.nrows
		path := filepath.Join(dir, fmt.Sprintf("l%d-%d.sqlite", ps, ci))
		if err := makeVersionedDB(writer, path, ps, nrows); err != nil {
			run.Inconclusive("db: " + err.Error())
			return
		}
		if err := writer.Open("w", path, 0); err != nil {
			run.Inconclusive("writer conn: " + err.Error())
			return
		}
		c06File(run, probe, writer, path, ps)
		c06LockStates(run, writer, path)
		c06FailedOpenThenGC(run, probe, path, ps)
		writer.CloseConn("w")
	}
}

var errStopPanic = errors.New("verif: deliberate callback panic")

// c06LockStates: another process holds raw POSIX locks in every combination on
// SQLite's three lock ranges; a read must fail exactly when the protocol says
// so, and whether it fails or not, it must leave no lock of ours behind.
func c06LockStates(run *hx.Run, writer *hx.Oracle, path string) {
	for _, pend := range []string{"", "RD", "WR"} {
		for _, resv := range []string{"", "WR"} {
			for _, shar := range []string{"", "RD", "WR"} {
				var spec []string
				if pend != "" {
					spec = append(spec, "pending:"+pend)
				}
				if resv != "" {
					spec = append(spec, "reserved:"+resv)
				}
				if shar != "" {
					spec = append(spec, "shared:"+shar)
				}
				state := strings.Join(spec, ",")
				if state == "" {
					state = "none"
				}
				lh, err := hx.StartLockHolder(path, strings.Join(spec, ","))
				if err != nil {
					run.Inconclusive("lock holder: " + err.Error())
					return
				}
				wantFail := pend == "WR" || shar == "WR"
				for _, opname := range []string{"Select", "SelectRowid", "Columns"} {
					db, err := sqlittle.Open(path)
					if err != nil {
						run.Violation("C06/lock-state/open/"+state, "Open failed: "+err.Error(), nil)
						continue
					}
					// twice on the same handle: a refusal must not leave state behind that lets the next call in
					for attempt := 1; attempt <= 2; attempt++ {
						n := 0
						var oerr error
						switch opname {
						case "Select":
							oerr = db.Select("t", func(sqlittle.Row) { n++ }, "id")
						case "SelectRowid":
							var r sqlittle.Row
							r, oerr = db.SelectRowid("t", 5, "id")
							if r != nil {
								n++
							}
						default:
							var cs []string
							cs, oerr = db.Columns("t")
							n = len(cs)
						}
						run.Eval(1)
						run.Distinct(fmt.Sprintf("lockstate/%s/%s/%d", state, opname, attempt))
						run.See("foreign_lock_state", state)
						key := fmt.Sprintf("C06/lock-state/%s/%s", state, opname)
						if attempt == 2 {
							key += "/second-call-on-handle"
						}
						if wantFail && (oerr == nil || n > 0) {
							run.Violation(key+"/read-admitted", fmt.Sprintf("another process holds [%s]: %s returned err=%v with %d rows; a reader must not enter", state, opname, oerr, n), nil)
						}
						if !wantFail && oerr != nil {
							run.Violation(key+"/read-refused", fmt.Sprintf("another process holds only [%s]: %s failed: %v", state, opname, oerr), nil)
						}
						// whatever the outcome: nothing of ours may stay locked
						var mine []hx.ProcLock
						if locks, err := hx.FileLocks(path); err == nil {
							for _, l := range locks {
								if l.Pid == os.Getpid() {
									mine = append(mine, l)
								}
							}
						}
						if len(mine) > 0 {
							run.Violation(key+"/lock-left-behind", fmt.Sprintf("another process holds [%s]: after %s returned (err=%v) this process still holds %+v", state, opname, oerr, mine), nil)
						}
					}
					db.Close()
				}
				lh.Release()
				// and writers can proceed afterwards
				if err := writer.ExecConn("w", "BEGIN IMMEDIATE", "UPDATE meta SET version=version+1", "COMMIT"); err != nil {
					writer.ExecConn("w", "ROLLBACK")
					run.Violation("C06/lock-state/"+state+"/writer-blocked-afterwards", fmt.Sprintf("after the reads under foreign locks [%s] a SQLite writer gets: %v", state, err), nil)
				}
			}
		}
	}
}

func c06File(run *hx.Run, probe, writer *hx.Oracle, path string, ps int) {
	cols := []string{"id", "v", "ver", "pad"}
	// a leaf page of table t to corrupt: the right-most leaf, found with the walker before any handle exists
	data, _ := os.ReadFile(path)
	corruptPage := 0
	if meta, err := hx.LoadMeta(probe, path); err == nil {
		for _, t := range meta.Tables {
			if t.Name == "t" {
				if pages, err := hx.WalkTree(data, ps, t.Root); err == nil && len(pages) > 2 {
					corruptPage = pages[len(pages)-1].No
				}
			}
		}
	}
	cases := []c06Case{
		{name: "Select", exit: "normal", run: func(h *c06Handle, at func()) {
			h.hi.Select("t", func(sqlittle.Row) { at() }, cols...)
		}},
		{name: "SelectDone", exit: "stop", run: func(h *c06Handle, at func()) {
			n := 0
			h.hi.SelectDone("t", func(sqlittle.Row) bool { at(); n++; return n >= 7 }, cols...)
		}},
		{name: "Select", exit: "error-column", wantErr: true, run: func(h *c06Handle, at func()) {
			h.hi.Select("t", func(sqlittle.Row) { at() }, "id", "nosuchcolumn")
		}},
		{name: "Select", exit: "error-table", wantErr: true, run: func(h *c06Handle, at func()) {
			h.hi.Select("nosuchtable", func(sqlittle.Row) { at() }, "id")
		}},
		{name: "Select", exit: "panic", run: func(h *c06Handle, at func()) {
			n := 0
			h.hi.Select("t", func(sqlittle.Row) {
				at()
				n++
				if n == 5 {
					panic(errStopPanic)
				}
			}, cols...)
		}},
		{name: "Select", exit: "nested-select-in-callback", run: func(h *c06Handle, at func()) {
			n := 0
			h.hi.Select("t", func(sqlittle.Row) {
				n++
				if n == 3 {
					// a select on the same handle from inside the callback (it may fail; the outer read must stay locked)
					safely(func() { h.hi.Select("meta", func(sqlittle.Row) {}, "version") })
					safely(func() { h.hi.Columns("t") })
				}
				at()
			}, cols...)
		}},
		{name: "IndexedSelect", exit: "normal", run: func(h *c06Handle, at func()) {
			h.hi.IndexedSelect("t", "ix_t_v", func(sqlittle.Row) { at() }, cols...)
		}},
		{name: "IndexedSelect", exit: "panic", run: func(h *c06Handle, at func()) {
			n := 0
			h.hi.IndexedSelect("t", "ix_t_v", func(sqlittle.Row) {
				at()
				n++
				if n == 3 {
					panic(errStopPanic)
				}
			}, cols...)
		}},
		{name: "IndexedSelect", exit: "error-index", wantErr: true, run: func(h *c06Handle, at func()) {
			h.hi.IndexedSelect("t", "nosuchindex", func(sqlittle.Row) { at() }, cols...)
		}},
		{name: "IndexedSelectEq", exit: "normal", run: func(h *c06Handle, at func()) {
			h.hi.IndexedSelectEq("t", "ix_t_v", sqlittle.Key{int64(919)}, func(sqlittle.Row) { at() }, cols...)
		}},
		{name: "IndexedSelectEq", exit: "panic", run: func(h *c06Handle, at func()) {
			h.hi.IndexedSelectEq("t", "ix_t_v", sqlittle.Key{int64(919)}, func(sqlittle.Row) { at(); panic(errStopPanic) }, cols...)
		}},
		{name: "PKSelect", exit: "panic", run: func(h *c06Handle, at func()) {
			h.hi.PKSelect("t", sqlittle.Key{int64(7)}, func(sqlittle.Row) { at(); panic(errStopPanic) }, cols...)
		}},
		{name: "SelectDone", exit: "panic", run: func(h *c06Handle, at func()) {
			n := 0
			h.hi.SelectDone("t", func(sqlittle.Row) bool {
				at()
				n++
				if n == 4 {
					panic(errStopPanic)
				}
				return false
			}, cols...)
		}},
		{name: "IndexedSelectEq", exit: "error-key", wantErr: true, run: func(h *c06Handle, at func()) {
			h.hi.IndexedSelectEq("t", "ix_t_v", sqlittle.Key{struct{}{}}, func(sqlittle.Row) { at() }, cols...)
		}},
		{name: "SelectRowid", exit: "normal", run: func(h *c06Handle, at func()) {
			h.hi.SelectRowid("t", 5, cols...)
		}},
		{name: "SelectRowid", exit: "absent", run: func(h *c06Handle, at func()) {
			h.hi.SelectRowid("t", 999999, cols...)
		}},
		{name: "PKSelect", exit: "normal", run: func(h *c06Handle, at func()) {
			h.hi.PKSelect("t", sqlittle.Key{int64(7)}, func(sqlittle.Row) { at() }, cols...)
		}},
		{name: "PKSelect", exit: "error-key", wantErr: true, run: func(h *c06Handle, at func()) {
			h.hi.PKSelect("t", sqlittle.Key{}, func(sqlittle.Row) { at() }, cols...)
		}},
		{name: "Select", exit: "error-hot-journal", wantErr: true, hotJournal: true, run: func(h *c06Handle, at func()) {
			h.hi.Select("t", func(sqlittle.Row) { at() }, cols...)
		}},
		{name: "IndexedSelectEq", exit: "error-hot-journal", wantErr: true, hotJournal: true, run: func(h *c06Handle, at func()) {
			h.hi.IndexedSelectEq("t", "ix_t_v", sqlittle.Key{int64(919)}, func(sqlittle.Row) { at() }, cols...)
		}},
		{name: "Columns", exit: "error-hot-journal", wantErr: true, hotJournal: true, run: func(h *c06Handle, at func()) { h.hi.Columns("t") }},
		{name: "Columns", exit: "normal", run: func(h *c06Handle, at func()) { h.hi.Columns("t") }},
		{name: "Columns", exit: "error-table", wantErr: true, run: func(h *c06Handle, at func()) { h.hi.Columns("nosuchtable") }},
	}
	if corruptPage > 0 {
		cases = append(cases,
			c06Case{name: "Select", exit: "error-corrupt", corrupt: corruptPage, run: func(h *c06Handle, at func()) {
				h.hi.Select("t", func(sqlittle.Row) { at() }, cols...)
			}},
			c06Case{name: "IndexedSelect", exit: "error-corrupt", corrupt: corruptPage, run: func(h *c06Handle, at func()) {
				h.hi.IndexedSelect("t", "ix_t_v", func(sqlittle.Row) { at() }, cols...)
			}})
	}
	version := 0
	tryWrite := func() error {
		version++
		err := writer.ExecConn("w", "BEGIN IMMEDIATE", fmt.Sprintf("UPDATE meta SET version=%d", version), "COMMIT")
		if err != nil {
			writer.ExecConn("w", "ROLLBACK")
			version--
		}
		return err
	}
	mypid := os.Getpid()
	for _, c := range cases {
		// inject: nothing | second handle in this process | sqlittle in another process
		injections := []string{"none"}
		if c.exit == "normal" && (c.name == "Select" || c.name == "IndexedSelect") {
			injections = append(injections, "file-grown-after-open", "other-process-open-select-close", "same-process-open", "same-process-select", "same-process-close")
		}
		for _, inj := range injections {
			h, err := c06Open(path, c.corrupt)
			if err != nil {
				run.Violation("C06/open", "open: "+err.Error(), nil)
				continue
			}
			var second *sqlittle.DB
			if inj == "same-process-select" || inj == "same-process-close" {
				second, _ = sqlittle.Open(path)
			}
			if inj == "file-grown-after-open" {
				// another process appends pages after this handle mapped the file
				if err := writer.ExecConn("w", "INSERT INTO t(v, ver, pad) SELECT v, ver, pad || 'grown-grown-grown-grown-grown-grown' FROM t LIMIT 150"); err != nil {
					run.Inconclusive("could not grow the file: " + err.Error())
				}
				run.See("injection", inj)
			}
			stops := 0
			inside := false
			injected := false
			base := fmt.Sprintf("C06/%s/%s", c.name, c.exit)
			detailOf := func(where string) hx.M {
				return hx.M{"op": c.name, "exit": c.exit, "stop": where, "page_size": ps, "injection": inj}
			}
			observe := func(where string) {
				stops++
				run.Eval(1)
				run.Distinct(fmt.Sprintf("%d/%s/%s/%s/%d", ps, c.name, c.exit, inj, stops))
				// injection happens once, in the middle of the interval
				if inj != "none" && inj != "file-grown-after-open" && inside && !injected && stops >= 3 {
					injected = true
					switch inj {
					case "same-process-open":
						if d, err := sqlittle.Open(path); err == nil {
							second = d
						}
					case "same-process-select":
						second.Select("meta", func(sqlittle.Row) {}, "version")
					case "same-process-close":
						second.Close()
						second = nil
					case "other-process-open-select-close":
						exe := os.Getenv("VERIF_VRUN")
						if exe == "" {
							exe, _ = os.Executable()
						}
						out, _ := exec.Command(exe, "worker", "c06peer", path, "all").CombinedOutput()
						if !strings.Contains(string(out), "peer done") {
							run.Inconclusive("peer process failed: " + clip(string(out), 200))
						}
					}
					run.See("injection", inj)
				}
				lk, err := probe.GetLk(path)
				if err != nil {
					run.Inconclusive("probe failed: " + err.Error())
					return
				}
				werr := tryWrite()
				if inside {
					held := lk.Shared.Type == "RD" && lk.Shared.Pid == mypid
					key := base
					if injected && strings.HasPrefix(inj, "same-process") {
						key = "C06/same-process/" + strings.TrimPrefix(inj, "same-process-")
					} else if injected {
						key = base + "/" + inj
					}
					if !held {
						run.Violation(key+"/lock-not-held", fmt.Sprintf("%s (%s, injection %s) stopped at %s: probe from another process sees shared range %s/pid %d - our SHARED lock is not held inside the operation", c.name, c.exit, inj, where, lk.Shared.Type, lk.Shared.Pid), detailOf(where))
					}
					if werr == nil {
						run.Violation(key+"/writer-committed-during-read", fmt.Sprintf("%s (%s, injection %s) stopped at %s: a SQLite writer in another process committed while the read was in progress", c.name, c.exit, inj, where), detailOf(where))
					}
					run.See("inside_interval", fmt.Sprintf("probe=%s commit=%v", lk.Shared.Type, werr != nil))
				} else {
					if lk.Shared.Type != "UN" || lk.Pending.Type != "UN" {
						run.Violation(base+"/lock-left-behind", fmt.Sprintf("%s (%s) stopped at %s outside the interval: probe sees %s", c.name, c.exit, where, lk), detailOf(where))
					}
					if werr != nil {
						run.Violation(base+"/writer-blocked-outside", fmt.Sprintf("%s (%s) at %s outside the interval: writer got %v", c.name, c.exit, where, werr), detailOf(where))
					}
					run.See("outside_interval", fmt.Sprintf("probe=%s commit-ok=%v", lk.Shared.Type, werr == nil))
				}
			}
			h.tp.Hook = func(idx int, ev hx.TraceEvent) {
				switch ev.Kind {
				case "lock":
					inside = true
				case "unlock":
					inside = false
				}
				observe(fmt.Sprintf("trace[%d]=%s%d", idx, ev.Kind, ev.Page))
			}
			traceEvents := 0
			// the same operation twice on the same handle: the second call has to take the lock again
			// (state left by the first call - a reused lock structure, a nesting counter - must not skip it)
			for pass := 1; pass <= 2; pass++ {
				if pass == 2 {
					if inj != "none" {
						break
					}
					base += "/second-call-on-handle"
					injected = false
				}
				nrow := 0
				atRow := func() {
					nrow++
					// every callback for short results, a stride for long ones
					if nrow <= 12 || nrow%17 == 0 {
						observe(fmt.Sprintf("callback[%d]", nrow))
					}
				}
				if c.hotJournal {
					// a crashed writer's journal: valid header, one sector, nobody holds RESERVED
					// (zero records and the true size in pages: when SQLite itself rolls it back later, nothing changes)
					j := make([]byte, 1024)
					npages := 0
					if fi, err := os.Stat(path); err == nil {
						npages = int(fi.Size()) / ps
					}
					copy(j, []byte{0xd9, 0xd5, 0x05, 0xf9, 0x20, 0xa1, 0x63, 0xd7, 0, 0, 0, 0, 1, 2, 3, 4, byte(npages >> 24), byte(npages >> 16), byte(npages >> 8), byte(npages), 0, 0, 2, 0})
					j[24], j[25], j[26], j[27] = byte(ps>>24), byte(ps>>16), byte(ps>>8), byte(ps)
					os.WriteFile(path+"-journal", j, 0o644)
				}
				var pm string
				func() {
					defer func() {
						if r := recover(); r != nil {
							if r == errStopPanic {
								pm = "deliberate"
							} else {
								pm = fmt.Sprint(r)
							}
						}
					}()
					c.run(h, atRow)
				}()
				if pm != "" && pm != "deliberate" {
					run.Violation(base+"/panic", "unexpected panic: "+pm, nil)
				}
				if c.exit == "panic" && pm != "deliberate" {
					run.Inconclusive("the deliberate callback panic did not happen")
				}
				if c.hotJournal {
					os.Remove(path + "-journal")
				}
				ev := h.tp.Take()
				traceEvents += len(ev)
				if msg := hx.CheckTrace(ev); msg != "" {
					run.Violation(base+"/trace", fmt.Sprintf("%s (%s): %s", c.name, c.exit, msg), hx.M{"events": len(ev)})
				}
				if c.corrupt > 0 && h.corr.hits == 0 {
					run.Inconclusive("the corrupted page was never read")
				}
				// after return
				inside = false
				observe("after-return")
			}
			h.tp.Hook = nil
			run.See("exit_path", c.name+"/"+c.exit)
			run.Count("stops", stops)
			if second != nil {
				second.Close()
			}
			h.low.Close()
			if inj == "none" && stops > 4 {
				run.Sample(hx.M{"op": c.name, "exit": c.exit, "page_size": ps, "trace_events": traceEvents, "stops_observed": stops})
			}
		}
	}
}

// c06FailedOpenThenGC: an Open that FAILS (hot journal) must not leave a descriptor of the file behind. The
// garbage collector closes such a descriptor at some later moment, and closing any descriptor of a file drops
// every POSIX lock the process holds on it - here the SHARED lock of a later, perfectly normal read.
// Sequence: several failing Opens; the cause is removed; a new handle reads; inside its callback the collector
// runs (until a sentinel's finalizer has run, so the leaked files' finalizers had their turn); the probe from
// another process must still see our lock.
func c06FailedOpenThenGC(run *hx.Run, probe *hx.Oracle, path string, ps int) {
	npages := 0
	if fi, err := os.Stat(path); err == nil {
		npages = int(fi.Size()) / ps
	}
	j := make([]byte, 1024)
	copy(j, []byte{0xd9, 0xd5, 0x05, 0xf9, 0x20, 0xa1, 0x63, 0xd7, 0, 0, 0, 0, 1, 2, 3, 4, byte(npages >> 24), byte(npages >> 16), byte(npages >> 8), byte(npages), 0, 0, 2, 0})
	j[24], j[25], j[26], j[27] = byte(ps>>24), byte(ps>>16), byte(ps>>8), byte(ps)
	if err := os.WriteFile(path+"-journal", j, 0o644); err != nil {
		return
	}
	failed := 0
	for i := 0; i < 8; i++ {
		if d, err := sqlittle.Open(path); err != nil {
			failed++
		} else {
			d.Close()
		}
	}
	os.Remove(path + "-journal")
	if failed == 0 {
		run.Count("failed_open_then_gc_not_applicable", 1)
		return
	}
	db, err := sqlittle.Open(path)
	if err != nil {
		run.Violation("C06/failed-open-then-gc/open", "Open after the journal was removed: "+err.Error(), nil)
		return
	}
	defer db.Close()
	mypid := os.Getpid()
	n := 0
	lost := ""
	db.Select("t", func(sqlittle.Row) {
		n++
		if n != 3 {
			return
		}
		// let the collector finalize whatever the failed Opens left behind
		for round := 0; round < 3; round++ {
			done := make(chan struct{})
			s := new([64]byte)
			runtime.SetFinalizer(s, func(*[64]byte) { close(done) })
			s = nil
			for i := 0; i < 50; i++ {
				runtime.GC()
				select {
				case <-done:
					i = 50
				default:
					time.Sleep(2 * time.Millisecond)
				}
			}
		}
		lk, err := probe.GetLk(path)
		run.Eval(1)
		run.Distinct(fmt.Sprintf("failed-open-then-gc/%d", ps))
		if err == nil && !(lk.Shared.Type == "RD" && lk.Shared.Pid == mypid) {
			lost = fmt.Sprintf("probe sees shared range %s/pid %d", lk.Shared.Type, lk.Shared.Pid)
		}
	}, "id")
	if lost != "" {
		run.Violation("C06/failed-open-then-gc/lock-not-held", fmt.Sprintf("%d Opens failed with a hot journal earlier in this process; during a later Select (another handle, journal gone) the garbage collector ran and our SHARED lock is gone: %s - the failed Opens left descriptors behind whose finalizers closed them", failed, lost), hx.M{"page_size": ps})
	} else {
		run.See("failed_open_then_gc", "lock still held after the collector ran")
	}
}
