//go:build verif

package props

import (
	"fmt"
	"math/rand"
	"os"
	"sort"
	"strings"
	"sync"

	sdb "github.com/alicebob/sqlittle/db"

	"verifharness/hx"
)

func init() { register("C13", "exploration", C13) }

// validateRefCmp checks the harness's reference comparator against SQLite's
// ranks over the value grid. Returns a description of the first mismatch.
func validateRefCmp(o *hx.Oracle, rng *rand.Rand) (string, int) {
	grid := hx.ExtendGrid(hx.Grid(), rng, 80)
	rs, _, err := sqliteRanks(o, grid)
	if err != nil {
		return "rank query failed: " + err.Error(), 0
	}
	n := len(rs.vals)
	for _, coll := range collations {
		r := rs.ranks[coll]
		for i := 0; i < n; i++ {
			for j := 0; j < n; j++ {
				c := hx.RefCompare(rs.vals[i], rs.vals[j], coll)
				want := 0
				if r[i] < r[j] {
					want = -1
				} else if r[i] > r[j] {
					want = 1
				}
				if c != want {
					return fmt.Sprintf("RefCompare(%s, %s, %s) = %d, SQLite rank order says %d", hx.ValueString(rs.vals[i]), hx.ValueString(rs.vals[j]), coll, c, want), 0
				}
			}
		}
	}
	return "", n * n * 3
}

type scanIndex struct {
	name   string
	table  string
	root   int
	flags  []hx.KeyFlag
	nkey   int
	pkOfWR bool
}

func C13(run *hx.Run) {
	run.Rule = "for every index (and every WITHOUT ROWID table tree) of every generated database: L = Index.Scan(); for every cut key (every prefix of stored entries at/next to page boundaries and interior entries located by the page walker, a PRNG sample of the rest, single-column mutations strictly between neighbours, below the first / above the last entry, keys longer than the stored records, keys of other storage classes) with the index's collation/DESC flags from PRAGMA index_xinfo: ScanMin(k) must equal the suffix of L from the first entry not less than k, ScanRange(a,b) the entries >= a and < b, ScanEq(k) the entries equal on k's columns, each in L's order. 'Less' is decided by an independent reference comparator that is itself checked against SQLite's ranks on the value grid first (mismatch => inconclusive); L must be sorted under it (else that index is skipped and counted). distinct = (database, index, operation, key)"
	run.Assumptions = append(stdAssumptions, "reference comparator validated against SQLite dense_rank on the grid at the start of the run", "index_xinfo supplies per-column collation and direction")
	o := mustOracle(run)
	if o == nil {
		return
	}
	if msg, n := validateRefCmp(o, newRng(run, 13)); msg != "" {
		o.Close()
		run.Inconclusive("reference comparator disagrees with SQLite: " + msg)
		return
	} else {
		run.SetExtra("reference_comparator_pairs_validated", n)
	}
	o.Close()
	profiles := []hx.M{
		{"page_size": 512, "rows": 500},
		{"page_size": 1024, "rows": 900, "frag": true},
		{"page_size": 4096, "rows": 600},
		{"page_size": 512, "rows": 5000, "features": []string{"plain", "alias", "wr"}},
		{"page_size": 65536, "rows": 700},
		{"page_size": 1024, "rows": 20000, "features": []string{"plain"}}, // interior index pages with a large fan-out
	}
	perIndex := 120
	if run.Thorough() {
		profiles = append(profiles,
			hx.M{"page_size": 2048, "rows": 3000, "auto_vacuum": 1},
			hx.M{"page_size": 8192, "rows": 4000, "frag": true},
			hx.M{"page_size": 512, "rows": 40000, "features": []string{"plain", "wr"}},
			hx.M{"page_size": 1024, "rows": 20000, "features": []string{"alias", "wr", "cpk"}},
			hx.M{"page_size": 16384, "rows": 3000, "vacuum": true},
		)
		perIndex = 1500
	}
	type job struct {
		data []byte
		si   scanIndex
		db   string
		ps   int
		pi   int
	}
	var jobs []job
	var jmu sync.Mutex
	forEachProfile(run, profiles, func(w *worker, d *hx.DB, idx int) {
		data, err := os.ReadFile(d.Path)
		if err != nil {
			run.Inconclusive("read: " + err.Error())
			return
		}
		jmu.Lock()
		defer jmu.Unlock()
		for _, t := range d.Meta.Tables {
			for _, ix := range t.Indexes {
				si := scanIndex{name: ix.Name, table: t.Name, root: ix.Root}
				if t.WR != 0 && ix.Origin == "pk" {
					si.root = t.Root
					si.pkOfWR = true
				}
				for _, c := range ix.Cols {
					coll := "binary"
					if c.Coll != nil {
						coll = strings.ToLower(*c.Coll)
					}
					si.flags = append(si.flags, hx.KeyFlag{Coll: coll, Desc: c.Desc != 0})
					if c.Key == 1 {
						si.nkey++
					}
				}
				jobs = append(jobs, job{data, si, hx.ProfileName(idx, d.Profile), d.PageSize(), idx})
			}
		}
	})
	ch := make(chan job, len(jobs))
	for _, j := range jobs {
		ch <- j
	}
	close(ch)
	var wg sync.WaitGroup
	for wi := 0; wi < nWorkers(); wi++ {
		wg.Add(1)
		go func() {
			defer wg.Done()
			for j := range ch {
				c13Index(run, j.data, j.si, j.db, j.ps, j.pi, perIndex)
			}
		}()
	}
	wg.Wait()
	for _, k := range []string{"ScanMin", "ScanRange", "ScanEq"} {
		if run.Seen("op", k) == 0 {
			run.Inconclusive("no " + k + " comparison was made")
		}
	}
}

func c13Index(run *hx.Run, data []byte, si scanIndex, dbname string, ps, pi, perIndex int) {
	rng := rand.New(rand.NewSource(run.Seed*4409 + int64(pi)*101 + int64(len(si.name))*7 + int64(si.root)))
	low, _, err := hx.OpenMem(data)
	if err != nil {
		run.Inconclusive("open: " + err.Error())
		return
	}
	open := func() (*sdb.Index, error) {
		if si.pkOfWR {
			return low.NonRowidTable(si.table)
		}
		return low.Index(si.name)
	}
	ix, err := open()
	if err != nil {
		run.Count("indexes_not_openable", 1)
		return
	}
	var L []hx.Row
	if err := ix.Scan(func(r sdb.Record) bool { L = append(L, recordToRow(r)); return false }); err != nil {
		run.Violation("C13/Scan/error", fmt.Sprintf("Index.Scan(%s) failed on a well-formed database: %v", si.name, err), nil)
		return
	}
	if len(L) == 0 {
		run.Count("empty_indexes", 1)
	}
	// L must be sorted under the reference comparator (otherwise: not this property's business)
	for i := 1; i < len(L); i++ {
		if hx.RefCompareRecordKey(L[i-1], L[i], si.flags) > 0 {
			run.Count("indexes_not_sorted_under_reference", 1)
			run.See("unsorted_index", si.name)
			return
		}
	}
	toKey := func(vals []hx.Value) sdb.Key {
		k := make(sdb.Key, len(vals))
		for i, v := range vals {
			k[i].V = v
			if i < len(si.flags) {
				// like sqlittle's own key construction: the default collation stays unnamed
				if si.flags[i].Coll != "binary" {
					k[i].Collate = si.flags[i].Coll
				}
				k[i].Desc = si.flags[i].Desc
			}
		}
		return k
	}
	// choose cut keys
	var keys [][]hx.Value
	seen := map[string]bool{}
	add := func(k []hx.Value) {
		kk := hx.RowKey(k)
		if !seen[kk] {
			seen[kk] = true
			keys = append(keys, k)
		}
	}
	positions := map[int]string{}
	if stops, _ := structuralStops(data, ps, si.root); stops != nil {
		for p, why := range stops {
			if p >= 1 && p <= len(L) {
				positions[p-1] = why
				if p < len(L) {
					positions[p] = why + "+1"
				}
			}
		}
	}
	for i := 0; i < perIndex && len(L) > 0; i++ {
		positions[rng.Intn(len(L))] = "sample"
	}
	if len(L) > 0 {
		positions[0], positions[len(L)-1] = "first", "last"
	}
	plist := make([]int, 0, len(positions))
	for p := range positions {
		plist = append(plist, p)
	}
	sort.Ints(plist)
	if len(plist) > perIndex*3 {
		// keep a deterministic subset: every stride-th position
		stride := len(plist)/(perIndex*3) + 1
		var kept []int
		for i, p := range plist {
			if i%stride == 0 {
				kept = append(kept, p)
			}
		}
		plist = kept
	}
	for _, p := range plist {
		why := positions[p]
		rec := L[p]
		run.See("cut_position_kind", strings.Split(why, "-L")[0])
		for n := 1; n <= len(rec); n++ {
			add(append([]hx.Value{}, rec[:n]...))
		}
		// strictly between neighbours: mutate one column
		col := rng.Intn(len(rec))
		for _, nb := range neighbours(rec[col], rng) {
			k := append([]hx.Value{}, rec[:col+1]...)
			k[col] = nb
			add(k)
		}
		// longer than the stored record
		add(append(append([]hx.Value{}, rec...), int64(0)))
		add(append(append([]hx.Value{}, rec...), nil))
	}
	add([]hx.Value{})
	add([]hx.Value{nil})
	add([]hx.Value{[]byte{0xff, 0xff, 0xff, 0xff}})
	for _, ov := range otherClassValues {
		add([]hx.Value{ov})
		add([]hx.Value{ov, ov})
	}
	less := func(rec hx.Row, k []hx.Value) bool { return hx.RefCompareRecordKey(rec, k, si.flags) < 0 }
	firstNotLess := func(k []hx.Value) int {
		// L is sorted under the reference comparator: binary search
		lo, hi := 0, len(L)
		for lo < hi {
			mid := (lo + hi) / 2
			if less(L[mid], k) {
				lo = mid + 1
			} else {
				hi = mid
			}
		}
		return lo
	}
	// streaming comparison: no copies, stops a little after the expected end
	type seqResult struct {
		n   int
		bad int
		err error
		pm  string
	}
	collect := func(want []hx.Row, f func(cb sdb.RecordCB) error) seqResult {
		res := seqResult{bad: -1}
		// on very large indexes only the first entries of a long expected run are compared
		// (later parts of the run are the head of some other key's run)
		capped := false
		if len(L) > 3000 && len(want) > 400 {
			want = want[:400]
			capped = true
		}
		p, pm := safely(func() {
			res.err = f(func(r sdb.Record) bool {
				if res.n < len(want) {
					if res.bad < 0 && !hx.RowEqualStrict(want[res.n], hx.Row(r)) {
						res.bad = res.n
					}
				} else if res.bad < 0 {
					res.bad = res.n
				}
				res.n++
				if capped && res.n >= len(want) {
					return true
				}
				return res.n > len(want)+3
			})
		})
		if p {
			res.pm = pm
		}
		if res.bad < 0 && res.n < len(want) {
			res.bad = res.n
		}
		return res
	}
	cmpSeq := func(op string, k, k2 []hx.Value, res seqResult, want []hx.Row) {
		run.Eval(1)
		run.See("op", op)
		run.Distinct(fmt.Sprintf("%d/%s/%s/%s/%s", pi, si.name, op, hx.RowKey(k), hx.RowKey(k2)))
		base := fmt.Sprintf("C13/%s", op)
		if res.pm == "" && res.err == nil && res.bad < 0 {
			return
		}
		detail := hx.M{"db": dbname, "index": si.name, "op": op, "key": hx.EncodeRow(k), "key2": hx.EncodeRow(k2), "flags": si.flags}
		switch {
		case res.pm != "":
			run.Violation(base+"/panic", fmt.Sprintf("%s(%s, %s) panicked: %s", op, si.name, hx.RowString(k), res.pm), detail)
		case res.err != nil:
			run.Violation(base+"/error", fmt.Sprintf("%s(%s, %s): %v", op, si.name, hx.RowString(k), res.err), detail)
		default:
			kind := "wrong-entries"
			if res.n < len(want) {
				kind = "missing-entries"
			} else if res.n > len(want) {
				kind = "extra-entries"
			}
			kl := "key-shorter"
			if len(L) > 0 && len(k) > len(L[0]) {
				kl = "key-longer-than-record"
			} else if len(L) > 0 && len(k) == len(L[0]) {
				kl = "key-full-width"
			}
			k2s := ""
			if k2 != nil {
				k2s = " .. " + hx.RowString(k2)
			}
			run.Violation(fmt.Sprintf("%s/%s/%s", base, kind, kl),
				fmt.Sprintf("%s(%s, key=%s%s) on %s: delivered %d entries (counting stops 3 past the expected end), reference %d; first difference at %d", op, si.name, hx.RowString(k), k2s, dbname, res.n, len(want), res.bad), detail)
		}
	}
	for ki, k := range keys {
		start := firstNotLess(k)
		cmpSeq("ScanMin", k, nil, collect(L[start:], func(cb sdb.RecordCB) error { return ix.ScanMin(toKey(k), cb) }), L[start:])
		eqEnd := start
		for eqEnd < len(L) && hx.RefCompareRecordKey(L[eqEnd], k, si.flags) == 0 {
			eqEnd++
		}
		cmpSeq("ScanEq", k, nil, collect(L[start:eqEnd], func(cb sdb.RecordCB) error { return ix.ScanEq(toKey(k), cb) }), L[start:eqEnd])
		// ScanRange with a PRNG-chosen partner key (both orders occur)
		k2 := keys[rng.Intn(len(keys))]
		end := firstNotLess(k2)
		var rg []hx.Row
		if end > start {
			rg = L[start:end]
		}
		cmpSeq("ScanRange", k, k2, collect(rg, func(cb sdb.RecordCB) error { return ix.ScanRange(toKey(k), toKey(k2), cb) }), rg)
		if ki == 1 && len(L) > 3 {
			run.Sample(hx.M{"db": dbname, "index": si.name, "entries": len(L), "key": hx.RowString(k), "flags": fmt.Sprint(si.flags), "scanmin_from": start, "scaneq": eqEnd - start, "range_to": end})
		}
	}
	// key-positioned scans started from INSIDE the callback of a scan over the same tree (a join the caller writes
	// by hand: for every entry, look something up): the inner scans answer as they do alone, the outer scan goes on
	if len(L) >= 4 && len(keys) > 0 {
		at := map[int]bool{0: true, len(L) / 2: true, len(L) - 1: true}
		seen := 0
		var nestedErr string
		var outerN int
		_, pmN := safely(func() {
			oerr := ix.Scan(func(sdb.Record) bool {
				if at[outerN] && nestedErr == "" {
					for j := 0; j < 2; j++ {
						k := keys[(outerN+j*7+seen)%len(keys)]
						start := firstNotLess(k)
						eqEnd := start
						for eqEnd < len(L) && hx.RefCompareRecordKey(L[eqEnd], k, si.flags) == 0 {
							eqEnd++
						}
						for _, in := range []struct {
							op   string
							want []hx.Row
							f    func(cb sdb.RecordCB) error
						}{
							{"ScanMin", L[start:], func(cb sdb.RecordCB) error { return ix.ScanMin(toKey(k), cb) }},
							{"ScanEq", L[start:eqEnd], func(cb sdb.RecordCB) error { return ix.ScanEq(toKey(k), cb) }},
							{"ScanRange", L[start:], func(cb sdb.RecordCB) error { return ix.ScanRange(toKey(k), nil, cb) }},
						} {
							if in.op == "ScanRange" {
								continue // an open upper end is not part of the documented contract
							}
							res := collect(in.want, in.f)
							run.Eval(1)
							seen++
							if res.pm != "" || res.err != nil || res.bad >= 0 || (res.n < len(in.want) && !(len(L) > 3000)) {
								nestedErr = fmt.Sprintf("%s(%s, %s) called from inside the callback of Scan(%s) at entry %d of %d: err=%v panic=%q entries=%d (alone: %d) first difference at %d", in.op, si.name, hx.RowString(k), si.name, outerN+1, len(L), res.err, firstLines(res.pm, 1), res.n, len(in.want), res.bad)
								return true
							}
						}
					}
				}
				outerN++
				return false
			})
			if oerr != nil && nestedErr == "" {
				nestedErr = fmt.Sprintf("Scan(%s) with key-positioned scans inside its callback: %v", si.name, oerr)
			}
		})
		switch {
		case pmN != "":
			run.Violation("C13/nested/panic", firstLines(pmN, 2), hx.M{"db": dbname, "index": si.name})
		case nestedErr != "":
			run.Violation("C13/nested/differs-from-alone", nestedErr+" on "+dbname, hx.M{"db": dbname, "index": si.name})
		case outerN != len(L):
			run.Violation("C13/nested/outer-disturbed", fmt.Sprintf("Scan(%s) on %s delivered %d entries instead of %d when key-positioned scans ran inside its callback", si.name, dbname, outerN, len(L)), hx.M{"db": dbname, "index": si.name})
		default:
			run.See("nested_key_positioned_scans", "as alone")
		}
	}
	run.Count("indexes", 1)
	run.Count("index_entries", len(L))
	if si.pkOfWR {
		run.See("tree", "without-rowid-table")
	} else {
		run.See("tree", "index")
	}
}
