//go:build verif

package props

import (
	"bytes"
	"encoding/json"
	"fmt"
	"math"
	"os"
	"os/exec"
	"reflect"
	"runtime"
	"strconv"
	"strings"
	"time"

	"github.com/alicebob/sqlittle"

	"verifharness/hx"
)

func init() {
	register("C18", "exploration", C18)
	workerMains["c18"] = c18Worker
}

// ---- reference model of the documented conversions ----

type modelOut struct {
	val interface{}
	err bool
}

func modelInt64(v hx.Value) (int64, bool) {
	switch x := v.(type) {
	case nil:
		return 0, false
	case int64:
		return x, false
	case float64:
		return int64(x), false
	case string:
		return modelParseInt(x)
	case []byte:
		return modelParseInt(string(x))
	}
	return 0, true
}

func modelParseInt(s string) (int64, bool) {
	if n, err := strconv.ParseInt(s, 10, 64); err == nil {
		return n, false
	}
	f, err := strconv.ParseFloat(s, 64)
	if err != nil {
		return 0, true
	}
	return int64(f), false
}

func modelFloat(v hx.Value) (float64, bool) {
	switch x := v.(type) {
	case nil:
		return 0, false
	case int64:
		return float64(x), false
	case float64:
		return x, false
	case string:
		f, err := strconv.ParseFloat(x, 64)
		return f, err != nil
	case []byte:
		f, err := strconv.ParseFloat(string(x), 64)
		return f, err != nil
	}
	return 0, true
}

func modelString(v hx.Value) string {
	switch x := v.(type) {
	case nil:
		return ""
	case int64:
		return strconv.FormatInt(x, 10)
	case float64:
		return strconv.FormatFloat(x, 'g', -1, 64)
	case string:
		return x
	case []byte:
		return string(x)
	}
	return ""
}

func modelTime(v hx.Value) (time.Time, bool) {
	switch x := v.(type) {
	case nil:
		return time.Time{}, false
	case int64:
		return time.Unix(x, 0), false
	case float64:
		return time.Time{}, true
	case string:
		if t, err := time.Parse("2006-01-02 15:04:05", x); err == nil {
			return t, false
		}
		t, err := time.Parse("2006-01-02 15:04:05.000", x)
		return t, err != nil
	case []byte:
		return time.Time{}, true
	}
	return time.Time{}, true
}

// dest kinds
var destKinds = []string{"string", "bytes", "int64", "int32", "int", "bool", "float64", "time", "nil", "uint-unsupported", "int8-unsupported", "value-not-pointer", "struct-unsupported"}

func newDest(kind string) interface{} {
	switch kind {
	case "string":
		return new(string)
	case "bytes":
		return new([]byte)
	case "int64":
		return new(int64)
	case "int32":
		return new(int32)
	case "int":
		return new(int)
	case "bool":
		return new(bool)
	case "float64":
		return new(float64)
	case "time":
		return new(time.Time)
	case "nil":
		return nil
	case "uint-unsupported":
		return new(uint)
	case "int8-unsupported":
		return new(int8)
	case "value-not-pointer":
		return "notapointer"
	default:
		return &struct{ A int }{}
	}
}

// model returns the expected value of *dest (as comparable) and whether an error is expected.
func model(kind string, v hx.Value, present bool) modelOut {
	if !present {
		v = nil
	}
	switch kind {
	case "string":
		return modelOut{modelString(v), false}
	case "bytes":
		if v == nil {
			return modelOut{[]byte(nil), false}
		}
		return modelOut{[]byte(modelString(v)), false}
	case "int64":
		n, e := modelInt64(v)
		return modelOut{n, e}
	case "int32":
		n, e := modelInt64(v)
		return modelOut{int32(n), e}
	case "int":
		n, e := modelInt64(v)
		return modelOut{int(n), e}
	case "bool":
		n, e := modelInt64(v)
		return modelOut{n != 0, e}
	case "float64":
		f, e := modelFloat(v)
		return modelOut{f, e}
	case "time":
		t, e := modelTime(v)
		return modelOut{t, e}
	case "nil":
		return modelOut{nil, false}
	}
	return modelOut{nil, true}
}

func derefDest(kind string, d interface{}) interface{} {
	switch kind {
	case "string":
		return *d.(*string)
	case "bytes":
		return *d.(*[]byte)
	case "int64":
		return *d.(*int64)
	case "int32":
		return *d.(*int32)
	case "int":
		return *d.(*int)
	case "bool":
		return *d.(*bool)
	case "float64":
		return *d.(*float64)
	case "time":
		return *d.(*time.Time)
	}
	return nil
}

func sameScanValue(a, b interface{}) bool {
	switch x := a.(type) {
	case float64:
		y, ok := b.(float64)
		return ok && (math.Float64bits(x) == math.Float64bits(y) || (math.IsNaN(x) && math.IsNaN(y)))
	case []byte:
		y, ok := b.([]byte)
		return ok && bytes.Equal(x, y) && (x == nil) == (y == nil)
	case time.Time:
		y, ok := b.(time.Time)
		return ok && x.Equal(y)
	}
	return reflect.DeepEqual(a, b)
}

func c18Values(run *hx.Run) []hx.Value {
	vals := hx.Grid()
	texts := []string{"123", "-123", "+5", "123test", " 12", "12 ", "1.5", "1e3", "1E3", "-0", "0x10", "0x1p4", "1_000", "Inf", "-Inf", "NaN", "infinity", "nan", ".5", "5.", "",
		"9223372036854775807", "9223372036854775808", "-9223372036854775808", "-9223372036854775809", "1e19", "1e400", "true", "false", "TRUE", "1,5", "٣",
		"2019-01-02 03:04:05", "2019-01-02 03:04:05.678", "2019-01-02T03:04:05Z", "2019-01-02", "2019-13-45 99:99:99", "0000-00-00 00:00:00", "2019-01-02 03:04:05.67", "2019-01-02 03:04:05 "}
	for _, t := range texts {
		vals = append(vals, t, []byte(t))
	}
	vals = append(vals, int64(1546398245), int64(-1), int64(253402300800), math.MaxFloat64, 1e19, -1e19, 0.999999, bytes.Repeat([]byte("z"), 100000), strings.Repeat("y", 100000))
	rng := newRng(run, 18)
	n := 40
	if run.Thorough() {
		n = 6000
	}
	vals = hx.ExtendGrid(vals, rng, n)
	if run.Thorough() {
		vals = hx.ExtendGrid(vals, rng, n/2) // second generation: neighbours of neighbours
	}
	return vals
}

func C18(run *hx.Run) {
	run.Rule = "monitor 1: every (stored value, destination kind) pair over the value grid extended with numeric-looking / malformed / time-format text and large blobs x 13 destination kinds (8 supported, nil, 4 unsupported) x argument counts 0..width+2, plus ScanString/ScanStringString/ScanStrings; compared with an independent model of the documented rules (value and error-ness), panics recovered, row deep-compared before/after. monitor 2 (child process): scan every column of every row of a generated database into string and []byte with deep copies; overwrite every scanned []byte with 0xAA; re-read the rows from the same handle (cache) and a fresh handle; then Close, overwrite + truncate the file, GC, and compare the scanned values with the copies. distinct = (value, destination kind, position/arity) triples + lifetime rows"
	run.Assumptions = append(stdAssumptions, "numbers convert 'by Go conversion': the model uses the same Go conversion expressions, so out-of-range float->int results are compared on this platform")
	// SQLite's zone-less timestamps are UTC whatever the zone of the process: run with a non-UTC local zone
	time.Local = time.FixedZone("verif+0230", 2*3600+1800)
	vals := c18Values(run)
	run.SetExtra("grid_values", len(vals))
	// ---- monitor 1 ----
	check := func(row sqlittle.Row, kinds []string) {
		before := hx.CloneRow(row)
		dests := make([]interface{}, len(kinds))
		for i, k := range kinds {
			dests[i] = newDest(k)
		}
		var err error
		p, pm := safely(func() { err = row.Scan(dests...) })
		run.Eval(1)
		desc := func() string {
			return fmt.Sprintf("Row%s.Scan(%v)", hx.RowString(before), kinds)
		}
		if p {
			run.Violation("C18/panic/"+panicSite(pm), desc()+" panicked: "+firstLines(pm, 2), hx.M{"row": hx.EncodeRow(before), "dests": kinds})
			return
		}
		if !hx.RowEqualStrict(before, hx.Row(row)) {
			run.Violation("C18/row-modified", desc()+" changed the row", nil)
		}
		// expected: first error (in argument order) wins; destinations before it are set
		wantErr := false
		for i, k := range kinds {
			var v hx.Value
			present := i < len(row)
			if present {
				v = before[i]
			}
			m := model(k, v, present)
			if m.err {
				wantErr = true
				break
			}
			if k == "nil" {
				continue
			}
			got := derefDest(k, dests[i])
			if err == nil || true {
				if !sameScanValue(got, m.val) {
					cls := "missing-column"
					if present {
						cls = hx.Class(v)
					}
					run.Violation(fmt.Sprintf("C18/conversion/%s-to-%s", cls, k), fmt.Sprintf("%s: argument %d (%s) = %#v, documented conversion gives %#v", desc(), i, k, got, m.val),
						hx.M{"row": hx.EncodeRow(before), "dests": kinds, "arg": i})
					return
				}
			}
		}
		if wantErr != (err != nil) {
			run.Violation("C18/error-ness", fmt.Sprintf("%s returned err=%v, the documented rules say error=%v", desc(), err, wantErr), hx.M{"row": hx.EncodeRow(before), "dests": kinds})
		}
	}
	// single value x kind x position
	for vi, v := range vals {
		for _, k := range destKinds {
			check(sqlittle.Row{v}, []string{k})
			run.DistinctN(1)
			if vi%7 == 0 {
				// the same value in second position after a clean first column, and missing columns
				check(sqlittle.Row{int64(1), v}, []string{"int64", k})
				check(sqlittle.Row{v}, []string{k, k, k})
				check(sqlittle.Row{}, []string{k})
				run.DistinctN(3)
			}
		}
		run.See("stored_class", hx.Class(v))
	}
	// typed nil pointers of the supported kinds ((*string)(nil), ...): there is nowhere to store the value -
	// that is an unusable destination, to be reported as an error like the other unsupported ones, never a panic
	typedNils := map[string]interface{}{"*string": (*string)(nil), "*[]byte": (*[]byte)(nil), "*int64": (*int64)(nil), "*int32": (*int32)(nil),
		"*int": (*int)(nil), "*bool": (*bool)(nil), "*float64": (*float64)(nil), "*time.Time": (*time.Time)(nil)}
	for vi, v := range vals {
		if vi%5 != 0 && vi > 60 {
			continue
		}
		for name, d := range typedNils {
			for _, row := range []sqlittle.Row{{v}, {}, {int64(1), v}} {
				var err error
				args := []interface{}{d}
				if len(row) == 2 {
					args = []interface{}{new(int64), d}
				}
				p, pm := safely(func() { err = row.Scan(args...) })
				run.Eval(1)
				run.DistinctN(1)
				if p {
					run.Violation("C18/panic/nil-pointer-destination/"+name, fmt.Sprintf("Row%s.Scan with a nil %s destination panicked: %s", hx.RowString(hx.Row(row)), name, firstLines(pm, 2)), nil)
				} else if err == nil {
					run.Violation("C18/nil-pointer-destination-accepted/"+name, fmt.Sprintf("Row%s.Scan with a nil %s destination returned no error", hx.RowString(hx.Row(row)), name), nil)
				}
			}
		}
	}
	run.See("destination_kind", "typed nil pointers")
	// random rows x random destination lists, arities 0..width+2
	rng := newRng(run, 181)
	trials := 20000
	if run.Thorough() {
		trials = 6000000
	}
	for t := 0; t < trials; t++ {
		w := rng.Intn(5)
		row := make(sqlittle.Row, w)
		for i := range row {
			row[i] = vals[rng.Intn(len(vals))]
		}
		// a third of the rows are a prefix of a wider record (spare capacity behind them), as the
		// rows cut from index entries are: Scan must not write behind the row
		var wide sqlittle.Row
		if t%3 == 0 {
			wide = make(sqlittle.Row, w+3)
			copy(wide, row)
			wide[w], wide[w+1], wide[w+2] = "sentinel-a", int64(424242), []byte("sentinel-c")
			row = wide[:w]
		}
		n := rng.Intn(w + 3)
		kinds := make([]string, n)
		for i := range kinds {
			if rng.Intn(10) == 0 {
				kinds[i] = destKinds[rng.Intn(len(destKinds))]
			} else {
				kinds[i] = destKinds[rng.Intn(9)]
			}
		}
		check(row, kinds)
		if wide != nil {
			if s, _ := wide[w].(string); s != "sentinel-a" || wide[w+1] != int64(424242) || string(wide[w+2].([]byte)) != "sentinel-c" {
				run.Violation("C18/row-modified/behind-the-row", fmt.Sprintf("Row.Scan with %d destinations on a %d-column row that is a prefix of a wider record overwrote the record behind the row: %s", n, w, hx.RowString(wide)), nil)
			}
			run.See("row_shape", "prefix-of-wider-record")
		}
		run.See("arity_minus_width", fmt.Sprint(n-w))
		if t < 3 {
			run.Sample(hx.M{"row": hx.RowString(row), "destinations": kinds})
		}
	}
	run.DistinctN(trials)
	// shortcuts
	for _, v := range vals {
		row := sqlittle.Row{v, v}
		var s1, s2 string
		var ss []string
		var e1, e2 error
		if p, pm := safely(func() { s1, e1 = row.ScanString(); _, s2, e2 = row.ScanStringString(); ss = row.ScanStrings() }); p {
			run.Violation("C18/panic/"+panicSite(pm), "ScanString* panicked on "+hx.ValueString(v), nil)
			continue
		}
		run.Eval(1)
		want := modelString(v)
		if e1 != nil || e2 != nil || s1 != want || s2 != want || len(ss) != 2 || ss[0] != want || ss[1] != want {
			run.Violation("C18/scanstring/"+hx.Class(v), fmt.Sprintf("ScanString/ScanStringString/ScanStrings of %s = %q/%q/%v (errs %v %v), documented %q", hx.ValueString(v), s1, s2, ss, e1, e2, want), nil)
		}
	}
	// empty row shortcuts
	if p, pm := safely(func() {
		sqlittle.Row{}.ScanString()
		sqlittle.Row{}.ScanStringString()
		sqlittle.Row{}.ScanStrings()
		sqlittle.Row(nil).Scan()
	}); p {
		run.Violation("C18/panic/"+panicSite(pm), "Scan shortcuts panicked on an empty row", nil)
	}

	// ---- monitor 2: lifetime, in a child process ----
	o := mustOracle(run)
	if o == nil {
		return
	}
	defer o.Close()
	dir, cleanup := hx.ScratchDir("C18")
	defer cleanup()
	profiles := []hx.M{{"page_size": 512, "rows": 150}, {"page_size": 4096, "rows": 300}}
	if run.Thorough() {
		profiles = append(profiles, hx.M{"page_size": 1024, "rows": 3000, "frag": true}, hx.M{"page_size": 65536, "rows": 500}, hx.M{"page_size": 512, "rows": 4000, "features": []string{"plain", "big", "wr"}},
			hx.M{"page_size": 2048, "rows": 1200, "auto_vacuum": 1}, hx.M{"page_size": 8192, "rows": 2000, "frag": true}, hx.M{"page_size": 16384, "rows": 800}, hx.M{"page_size": 32768, "rows": 600},
			hx.M{"page_size": 512, "rows": 20, "features": []string{"big"}, "big_extra": []int{3_000_000}})
	}
	for i, pr := range profiles {
		d, err := hx.BuildDB(o, dir, fmt.Sprintf("life%d", i), pr, run.Seed*19+int64(i))
		if err != nil {
			run.Inconclusive("lifetime corpus: " + err.Error())
			continue
		}
		var tables []string
		for _, t := range d.Meta.Tables {
			tables = append(tables, t.Name)
		}
		exe := os.Getenv("VERIF_VRUN")
		if exe == "" {
			exe, _ = os.Executable()
		}
		cmd := exec.Command(exe, "worker", "c18", d.Path, strings.Join(tables, "\x1f"))
		cmd.Env = append(os.Environ(), "GOTRACEBACK=all")
		var stderr bytes.Buffer
		cmd.Stderr = &stderr
		out, err := cmd.Output()
		run.Eval(1)
		var rep c18Report
		if err != nil || json.Unmarshal(lastLine(out), &rep) != nil {
			run.Violation("C18/lifetime/worker-died/"+panicSite(stderr.String()), fmt.Sprintf("lifetime worker died (%v): %s", err, firstLines(stderr.String(), 3)), hx.M{"stderr_tail": lastBytes(stderr.String(), 4000)})
			continue
		}
		for _, f := range rep.Findings {
			run.Violation("C18/lifetime/"+f.Kind, f.Msg, hx.M{"profile": pr})
		}
		run.Count("lifetime_rows", rep.Rows)
		run.Count("lifetime_values_scanned", rep.Values)
		run.Count("lifetime_byte_slices_overwritten", rep.Overwritten)
		run.Count("lifetime_spare_capacity_bytes_overwritten", rep.SpareCapacityBytes)
		run.DistinctN(rep.Rows)
		for _, st := range rep.Stages {
			run.See("lifetime_stage", st)
		}
		run.Sample(hx.M{"lifetime_db": hx.ProfileName(i, pr), "rows": rep.Rows, "values": rep.Values, "stages": rep.Stages})
	}
}

func lastLine(b []byte) []byte {
	lines := bytes.Split(bytes.TrimSpace(b), []byte("\n"))
	return lines[len(lines)-1]
}

type c18Finding struct {
	Kind string `json:"kind"`
	Msg  string `json:"msg"`
}

type c18Report struct {
	Findings    []c18Finding `json:"findings"`
	Rows        int          `json:"rows"`
	Values      int          `json:"values"`
	Overwritten int          `json:"overwritten"`
	// bytes of spare capacity behind scanned slices that were overwritten as well
	SpareCapacityBytes int      `json:"spare_capacity_bytes"`
	Stages             []string `json:"stages"`
}

type scannedRow struct {
	table   string
	strs    []string // as scanned
	byts    [][]byte // as scanned (live slices handed out by Scan)
	strCopy []string // deep copies taken at scan time
	bytCopy [][]byte
}

// c18LateScan: first difference seen when a row kept from the previous callback was scanned one callback later.
var c18LateScan string

func c18ReadAll(db *sqlittle.DB, tables []string) ([]scannedRow, error) {
	var out []scannedRow
	for _, tn := range tables {
		cols, err := db.Columns(tn)
		if err != nil {
			continue // a table sqlittle rejects
		}
		var prevRow sqlittle.Row
		var prevStrs []string
		err = db.Select(tn, func(r sqlittle.Row) {
			// the row of the previous callback, kept as it was handed out: still inside the same transaction,
			// scanning it now must give what scanning it then gave
			if prevRow != nil {
				now := make([]string, len(cols))
				nd := make([]interface{}, len(cols))
				for i := range cols {
					nd[i] = &now[i]
				}
				prevRow.Scan(nd...)
				for i := range now {
					if now[i] != prevStrs[i] && c18LateScan == "" {
						c18LateScan = fmt.Sprintf("table %s: a row kept from the previous callback scans to %q in column %d; inside its own callback it scanned to %q", tn, clip(now[i], 40), i, clip(prevStrs[i], 40))
					}
				}
			}
			sr := scannedRow{table: tn}
			sd := make([]interface{}, len(cols))
			bd := make([]interface{}, len(cols))
			sr.strs = make([]string, len(cols))
			sr.byts = make([][]byte, len(cols))
			for i := range cols {
				sd[i] = &sr.strs[i]
				bd[i] = &sr.byts[i]
			}
			r.Scan(sd...)
			r.Scan(bd...)
			for i := range cols {
				sr.strCopy = append(sr.strCopy, strings.Clone(sr.strs[i]))
				sr.bytCopy = append(sr.bytCopy, append([]byte(nil), sr.byts[i]...))
			}
			out = append(out, sr)
			prevRow, prevStrs = r, sr.strCopy
		}, cols...)
		if err != nil {
			return out, err
		}
	}
	return out, nil
}

func c18Worker(args []string) {
	path := args[0]
	tables := strings.Split(args[1], "\x1f")
	var rep c18Report
	add := func(kind, msg string) {
		if len(rep.Findings) < 20 {
			rep.Findings = append(rep.Findings, c18Finding{kind, msg})
		}
	}
	finish := func() {
		b, _ := json.Marshal(rep)
		fmt.Println(string(b))
	}
	db, err := sqlittle.Open(path)
	if err != nil {
		add("open", err.Error())
		finish()
		return
	}
	first, err := c18ReadAll(db, tables)
	if err != nil {
		add("read", err.Error())
		finish()
		return
	}
	rep.Rows = len(first)
	for _, r := range first {
		rep.Values += 2 * len(r.strs)
	}
	rep.Stages = append(rep.Stages, "first-read")
	if c18LateScan != "" {
		add("row-kept-for-one-callback-changed", c18LateScan)
	}
	// (i) overwrite every scanned byte slice - and whatever spare capacity came with it (what append() would write to)
	for _, r := range first {
		for _, b := range r.byts {
			if cap(b) > len(b) {
				spare := b[len(b):cap(b)]
				for i := range spare {
					spare[i] = 0xAB
				}
				rep.SpareCapacityBytes += len(spare)
			}
			for i := range b {
				b[i] = 0xAA
			}
			if len(b) > 0 {
				rep.Overwritten++
			}
		}
	}
	// strings scanned earlier must not have changed (they could share memory with the slices)
	for _, r := range first {
		for i := range r.strs {
			if r.strs[i] != r.strCopy[i] {
				add("string-changed-by-slice-write", fmt.Sprintf("table %s: a scanned string changed after writing into a scanned []byte of the same row", r.table))
			}
		}
	}
	compare := func(stage string, again []scannedRow) {
		if len(again) != len(first) {
			add(stage+"/row-count", fmt.Sprintf("%s: %d rows, first read %d", stage, len(again), len(first)))
			return
		}
		for ri := range again {
			for ci := range again[ri].bytCopy {
				if !bytes.Equal(again[ri].bytCopy[ci], first[ri].bytCopy[ci]) || again[ri].strCopy[ci] != first[ri].strCopy[ci] {
					add(stage+"/caller-write-visible", fmt.Sprintf("%s: table %s row %d column %d now reads %q, stored value is %q: bytes written by the caller into a scanned []byte came back from a later read", stage, again[ri].table, ri, ci, clip(string(again[ri].bytCopy[ci]), 40), clip(string(first[ri].bytCopy[ci]), 40)))
					return
				}
			}
		}
	}
	again, err := c18ReadAll(db, tables)
	if err != nil {
		add("reread", err.Error())
	} else {
		compare("reread-same-handle", again)
		rep.Stages = append(rep.Stages, "reread-same-handle")
	}
	db2, err := sqlittle.Open(path)
	if err == nil {
		fresh, err := c18ReadAll(db2, tables)
		if err != nil {
			add("reread-fresh", err.Error())
		} else {
			compare("reread-fresh-handle", fresh)
			rep.Stages = append(rep.Stages, "reread-fresh-handle")
		}
		db2.Close()
	}
	// (ii) close, destroy the file, GC; the second read's values must stay intact
	keep := again
	if keep == nil {
		keep = first
	}
	db.Close()
	if fi, err := os.Stat(path); err == nil {
		junk := bytes.Repeat([]byte{0x55}, int(fi.Size()))
		os.WriteFile(path, junk, 0o644)
		os.Truncate(path, 0)
	}
	runtime.GC()
	runtime.GC()
	junk := make([][]byte, 64)
	for i := range junk {
		junk[i] = bytes.Repeat([]byte{0x77}, 1<<20)
	}
	runtime.GC()
	for ri := range keep {
		for ci := range keep[ri].strs {
			if keep[ri].strs[ci] != keep[ri].strCopy[ci] || !bytes.Equal(keep[ri].byts[ci], keep[ri].bytCopy[ci]) {
				add("after-close/changed", fmt.Sprintf("table %s row %d column %d: value obtained from Scan changed after Close + file overwrite", keep[ri].table, ri, ci))
				finish()
				return
			}
		}
	}
	rep.Stages = append(rep.Stages, "after-close-overwrite-gc")
	_ = junk
	finish()
}
