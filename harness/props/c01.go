//go:build verif

package props

import (
	"fmt"
	"math/rand"
	"strings"

	"github.com/alicebob/sqlittle"
	sdb "github.com/alicebob/sqlittle/db"
	"github.com/alicebob/sqlittle/sql"

	"verifharness/hx"
)

func init() { register("C01", "exploration", C01) }

// fullExpected asks SQLite for the whole table in scan order. For rowid
// tables column 0 is the rowid.
func fullExpected(o *hx.Oracle, d *hx.DB, t *hx.TableInfo) ([]hx.Row, error) {
	order, err := hx.OrderByTable(t)
	if err != nil {
		return nil, err
	}
	sel := selectList(t.ColNames())
	if t.WR == 0 {
		sel = t.RowidName() + ", " + sel
	}
	return o.Query(d.Path, fmt.Sprintf("SELECT %s FROM %s ORDER BY %s", sel, hx.QuoteIdent(t.Name), order))
}

// project derives the expected rows for a column list from the full result.
// ok=false when the list cannot be resolved locally.
func project(t *hx.TableInfo, full []hx.Row, cols []string) ([]hx.Row, bool) {
	names := t.ColNames()
	idx := make([]int, len(cols))
	off := 0
	if t.WR == 0 {
		off = 1
	}
	for i, c := range cols {
		idx[i] = -1
		for j, n := range names {
			if hx.SameName(n, c) {
				idx[i] = j + off
				break
			}
		}
		if idx[i] < 0 {
			u := strings.ToUpper(c)
			if t.WR == 0 && (u == "ROWID" || u == "OID" || u == "_ROWID_") {
				// (a real column of that name was matched above, as in SQLite)
				idx[i] = 0
			} else {
				return nil, false
			}
		}
	}
	out := make([]hx.Row, len(full))
	for r, row := range full {
		pr := make(hx.Row, len(cols))
		for i, j := range idx {
			pr[i] = row[j]
		}
		out[r] = pr
	}
	return out, true
}

func mixCase(rng *rand.Rand, s string) string {
	b := []rune(s)
	for i, r := range b {
		if rng.Intn(2) == 0 {
			b[i] = []rune(strings.ToUpper(string(r)))[0]
		} else {
			b[i] = []rune(strings.ToLower(string(r)))[0]
		}
	}
	return string(b)
}

// columnLists: all columns, then PRNG subsets / permutations / repeats /
// rowid names / mixed-case names.
func columnLists(rng *rand.Rand, t *hx.TableInfo, n int) [][]string {
	names := t.ColNames()
	lists := [][]string{names}
	rowidNames := []string{"rowid", "oid", "_rowid_", "ROWID", "Oid", "_RowID_"}
	for k := 0; k < n; k++ {
		l := 1 + rng.Intn(len(names)+2)
		var cols []string
		for i := 0; i < l; i++ {
			x := rng.Intn(10)
			switch {
			case x == 0 && t.WR == 0:
				cols = append(cols, rowidNames[rng.Intn(len(rowidNames))])
			case x == 1:
				cols = append(cols, mixCase(rng, names[rng.Intn(len(names))]))
			default:
				cols = append(cols, names[rng.Intn(len(names))])
			}
		}
		lists = append(lists, cols)
	}
	if t.WR == 0 {
		lists = append(lists, []string{"rowid"}, append([]string{"_rowid_"}, names...), []string{"oid", "OID", "RowId"})
	}
	return lists
}

func C01(run *hx.Run) {
	run.Rule = "for every table of every generated database x several column lists (all columns; PRNG subsets, permutations, repeats, rowid/oid/_rowid_, mixed-case names): DB.Select rows vs SQLite's SELECT ... ORDER BY rowid|pk (values, storage classes, count, order); online monitors: rowids strictly increasing, count equals count(*); low-level Table.Scan / Index.Scan records vs the same reference. distinct = distinct (database, table, column list) triples with at least one row"
	run.Assumptions = append(stdAssumptions, "an integral REAL surfacing as an integer is accepted (documented)")
	profiles := hx.ProfilesReps(run.Tier, run.Seed, 10)
	nLists := 4
	if run.Thorough() {
		nLists = 8
	}
	forEachProfile(run, profiles, func(w *worker, d *hx.DB, idx int) {
		rng := rand.New(rand.NewSource(run.Seed*131 + int64(idx)))
		db, err := sqlittle.Open(d.Path)
		if err != nil {
			run.Violation("C01/open/"+hx.ProfileName(idx, d.Profile), "Open failed on a well-formed database: "+err.Error(), d.Profile)
			return
		}
		defer db.Close()
		low, err := sdb.OpenFile(d.Path)
		if err != nil {
			run.Violation("C01/open-low", "OpenFile failed: "+err.Error(), d.Profile)
			return
		}
		defer low.Close()
		for ti := range d.Meta.Tables {
			t := &d.Meta.Tables[ti]
			full, err := fullExpected(w.o, d, t)
			if err != nil {
				run.Inconclusive("reference query failed for " + t.Name + ": " + err.Error())
				continue
			}
			run.Count("tables", 1)
			run.See("table_kind", tableKind(t))
			accepted := true
			for li, cols := range columnLists(rng, t, nLists) {
				want, ok := project(t, full, cols)
				direct := li == 1 || li == 2 || !ok
				if direct {
					// true differential for some lists: ask SQLite for exactly these columns
					order, _ := hx.OrderByTable(t)
					var qs []string
					for _, c := range cols {
						u := strings.ToUpper(c)
						if u == "ROWID" || u == "OID" || u == "_ROWID_" {
							qs = append(qs, c)
						} else {
							qs = append(qs, hx.QuoteIdent(c))
						}
					}
					want, err = w.o.Query(d.Path, fmt.Sprintf("SELECT %s FROM %s ORDER BY %s", strings.Join(qs, ", "), hx.QuoteIdent(t.Name), order))
					if err != nil {
						run.Inconclusive("reference query failed: " + err.Error())
						continue
					}
				}
				got, err, pm := collectSelect(db, t.Name, cols)
				run.Eval(1)
				base := fmt.Sprintf("C01/select/%s", t.Name)
				detail := hx.M{"profile": d.Profile, "db_seed": d.Seed, "table": t.Name, "columns": cols}
				if pm != "" {
					run.Violation(base+"/"+pmKind(pm), "Select: "+pm, detail)
					continue
				}
				if err != nil {
					if len(got) > 0 {
						run.Violation(base+"/error-after-rows", fmt.Sprintf("Select returned error %q after delivering %d rows of a well-formed table", err, len(got)), detail)
					} else if li == 0 {
						accepted = false
						// "a definition sqlittle cannot interpret produces an error": only that is a rejection
						defOK := false
						if t.SQL != nil {
							if st, perr := sql.Parse(*t.SQL); perr == nil {
								_, defOK = st.(sql.CreateTableStmt)
							}
						}
						if defOK {
							run.Violation(base+"/error-on-accepted-definition", fmt.Sprintf("Select(%s) on %s failed with %q although sqlittle parses the table's definition", t.Name, hx.ProfileName(idx, d.Profile), err), detail)
						} else {
							run.Count("tables_rejected_by_sqlittle", 1)
							run.See("rejected", t.Name+": "+err.Error())
						}
					} else if accepted {
						run.Violation(base+"/error-for-column-list", fmt.Sprintf("Select(%v) failed with %q although the table is accepted", cols, err), detail)
					}
					continue
				}
				if df := diffRows(want, got); df != "" {
					run.Violation(fmt.Sprintf("%s/%s", base, diffKind(want, got)), fmt.Sprintf("Select(%s, %v) on %s: %s", t.Name, cols, hx.ProfileName(idx, d.Profile), df), detail)
					continue
				}
				if len(want) != t.Count {
					run.Violation(base+"/count", fmt.Sprintf("row count %d != count(*) %d", len(got), t.Count), detail)
				}
				run.Count("rows_compared", len(got))
				if len(got) > 0 {
					run.Distinct(fmt.Sprintf("%d/%s/%v", idx, t.Name, cols))
				}
				if li == 0 && ti%5 == 0 && len(got) > 0 {
					run.Sample(hx.M{"db": hx.ProfileName(idx, d.Profile), "table": t.Name, "columns": cols, "rows": len(got), "first_row": hx.RowString(got[0])})
				}
			}
			if !accepted {
				continue
			}
			// online monitor: rowids strictly increasing
			if t.WR == 0 {
				got, err, _ := collectSelect(db, t.Name, []string{t.RowidName()})
				if err == nil {
					for i := 1; i < len(got); i++ {
						a, _ := got[i-1][0].(int64)
						b, _ := got[i][0].(int64)
						if !(a < b) {
							run.Violation("C01/select/"+t.Name+"/rowid-not-increasing", fmt.Sprintf("rowid %d followed by %d", a, b), nil)
							break
						}
					}
				}
			}
			// low-level scans
			lowLevelScan(run, low, d, t, full, idx)
		}
		if st, ok := d.Stat["t_big"]; ok && st.Overflow > 0 {
			run.See("overflow_chain", "t_big pages="+fmt.Sprint(st.Overflow > 10))
		}
	})
	if run.Seen("table_kind", "without-rowid") == 0 || run.Seen("table_kind", "rowid") == 0 {
		run.Inconclusive("corpus did not contain both rowid and WITHOUT ROWID tables")
	}
	alterDefaults(run)
}

// lowLevelScan compares db.Table.Scan (rowid tables) / db.Index.Scan (WITHOUT
// ROWID) raw records with the reference. Raw records: a rowid-alias column is
// stored as NULL; short rows (ALTER TABLE) are short.
func lowLevelScan(run *hx.Run, low *sdb.Database, d *hx.DB, t *hx.TableInfo, full []hx.Row, idx int) {
	names := t.ColNames()
	if t.WR == 0 {
		tab, err := low.Table(t.Name)
		if err != nil {
			run.Violation("C01/low/"+t.Name+"/open", "db.Table failed: "+err.Error(), nil)
			return
		}
		i := 0
		bad := ""
		var scanErr error
		p, pm := safely(func() {
			scanErr = tab.Scan(func(rowid int64, rec sdb.Record) bool {
				if i >= len(full) {
					bad = fmt.Sprintf("extra record rowid=%d", rowid)
					return true
				}
				w := full[i]
				if w[0].(int64) != rowid {
					bad = fmt.Sprintf("record %d: rowid %d, SQLite %d", i, rowid, w[0].(int64))
					return true
				}
				if len(rec) > len(names) {
					bad = fmt.Sprintf("record %d has %d fields, table has %d columns", i, len(rec), len(names))
					return true
				}
				for c := 0; c < len(rec); c++ {
					if t.RowidAlias != nil && hx.SameName(*t.RowidAlias, names[c]) {
						if rec[c] != nil {
							bad = fmt.Sprintf("record %d: rowid alias column stored as %s", i, hx.ValueString(rec[c]))
							return true
						}
						continue
					}
					if !hx.ValueEqualDoc(w[c+1], rec[c]) {
						bad = fmt.Sprintf("record %d col %s: sqlittle %s, SQLite %s", i, names[c], hx.ValueString(rec[c]), hx.ValueString(w[c+1]))
						return true
					}
				}
				i++
				return false
			})
		})
		run.Eval(1)
		switch {
		case p:
			run.Violation("C01/low/"+t.Name+"/panic", "Table.Scan panicked: "+pm, nil)
		case scanErr != nil:
			run.Violation("C01/low/"+t.Name+"/error", "Table.Scan error: "+scanErr.Error(), nil)
		case bad != "":
			run.Violation("C01/low/"+t.Name+"/values", "Table.Scan: "+bad+" ("+hx.ProfileName(idx, d.Profile)+")", nil)
		case i != len(full):
			run.Violation("C01/low/"+t.Name+"/count", fmt.Sprintf("Table.Scan delivered %d records, SQLite has %d", i, len(full)), nil)
		default:
			run.Count("low_level_records", i)
		}
		return
	}
	// WITHOUT ROWID: records are stored pk columns first, then the rest
	ix, err := low.NonRowidTable(t.Name)
	if err != nil {
		run.Violation("C01/low/"+t.Name+"/open", "db.NonRowidTable failed: "+err.Error(), nil)
		return
	}
	pk := t.PKIndex()
	if pk == nil {
		return
	}
	var order []int // stored position -> column index in names
	for _, c := range pk.Cols {
		if c.Name == nil {
			continue
		}
		for j, n := range names {
			if n == *c.Name {
				order = append(order, j)
			}
		}
	}
	i := 0
	bad := ""
	var scanErr error
	p, pm := safely(func() {
		scanErr = ix.Scan(func(rec sdb.Record) bool {
			if i >= len(full) {
				bad = "extra record"
				return true
			}
			for s := 0; s < len(rec) && s < len(order); s++ {
				if !hx.ValueEqualDoc(full[i][order[s]], rec[s]) {
					bad = fmt.Sprintf("record %d stored field %d (%s): sqlittle %s, SQLite %s", i, s, names[order[s]], hx.ValueString(rec[s]), hx.ValueString(full[i][order[s]]))
					return true
				}
			}
			i++
			return false
		})
	})
	run.Eval(1)
	switch {
	case p:
		run.Violation("C01/low/"+t.Name+"/panic", "Index.Scan panicked: "+pm, nil)
	case scanErr != nil:
		run.Violation("C01/low/"+t.Name+"/error", "Index.Scan error: "+scanErr.Error(), nil)
	case bad != "":
		run.Violation("C01/low/"+t.Name+"/values", "NonRowidTable.Scan: "+bad, nil)
	case i != len(full):
		run.Violation("C01/low/"+t.Name+"/count", fmt.Sprintf("NonRowidTable.Scan delivered %d records, SQLite has %d", i, len(full)), nil)
	default:
		run.Count("low_level_records", i)
	}
}

// alterDefaults: rows shorter than the column list (ALTER TABLE ADD COLUMN)
// must be completed from the column default exactly as SQLite does, for every
// (declared type, default literal) combination.
func alterDefaults(run *hx.Run) {
	o := mustOracle(run)
	if o == nil {
		return
	}
	defer o.Close()
	dir, cleanup := hx.ScratchDir("C01alter")
	defer cleanup()
	types := []string{"", "INTEGER", "INT", "TEXT", "VARCHAR(10)", "REAL", "DOUBLE", "NUMERIC", "BLOB", "BOOLEAN", "DATETIME"}
	lits := []struct{ name, sql string }{
		{"int", "7"}, {"negint", "-3"}, {"posint", "+4"}, {"real", "1.5"}, {"negreal", "-2.25"}, {"intreal", "3.0"},
		{"str", "'txt'"}, {"numstr", "'12'"}, {"realstr", "'1.5'"}, {"emptystr", "''"}, {"null", "NULL"},
		{"true", "TRUE"}, {"false", "FALSE"}, {"hex", "0x10"}, {"exp", "1e3"}, {"bigint", "9223372036854775807"},
		{"blob", "X'00ff'"}, {"parenint", "(5)"}, {"quoted-ident", "\"dq\""},
		{"leadzero", "010"}, {"negleadzero", "-007"}, {"leadzero-real", "01.50"}, {"dotreal", ".5"}, {"trailing-dot", "5."},
		{"int-beyond-int64", "9223372036854775808"}, {"negexp", "1e-2"}, {"leadzero-str", "'010'"}, {"spaced-numstr", "' 12 '"},
		{"hexstr", "'0x10'"}, {"expstr", "'1e3'"}, {"infstr", "'Inf'"}, {"nanstr", "'nan'"}, {"hexfloatstr", "'0x1p4'"}, {"underscore-str", "'1_000'"},
		{"nbsp-numstr", "'\u00a012'"}, {"below-int64-str", "'-9223372036854775809'"}, {"above-int64-str", "'9223372036854775808'"},
		{"huge-exp-str", "'1e400'"}, {"neg-huge-exp-str", "'-1e400'"}, {"int64-min-str", "'-9223372036854775808'"}, {"tab-numstr", "'\t7\n'"},
	}
	path := dir + "/alter.sqlite"
	var stmts []string
	stmts = append(stmts, "PRAGMA page_size=1024")
	type tcase struct{ table, typ, lit, litname string }
	var cases []tcase
	n := 0
	for _, ty := range types {
		for _, l := range lits {
			name := fmt.Sprintf("ta_%d", n)
			n++
			stmts = append(stmts, fmt.Sprintf("CREATE TABLE %s(a)", name),
				fmt.Sprintf("INSERT INTO %s VALUES(1),(2)", name))
			cases = append(cases, tcase{name, ty, l.sql, l.name})
		}
	}
	if err := o.Exec(path, stmts...); err != nil {
		run.Inconclusive("alter corpus: " + err.Error())
		return
	}
	var live []tcase
	for _, c := range cases {
		// SQLite may reject some (e.g. a quoted identifier default): skip those
		err := o.Exec(path, fmt.Sprintf("ALTER TABLE %s ADD COLUMN b %s DEFAULT %s", c.table, c.typ, c.lit),
			fmt.Sprintf("INSERT INTO %s(a) VALUES(3)", c.table))
		if err != nil {
			run.Count("alter_cases_rejected_by_sqlite", 1)
			continue
		}
		live = append(live, c)
	}
	db, err := sqlittle.Open(path)
	if err != nil {
		run.Violation("C01/alter/open", "Open failed: "+err.Error(), nil)
		return
	}
	defer db.Close()
	for _, c := range live {
		want, err := o.Query(path, fmt.Sprintf("SELECT a, b FROM %s ORDER BY rowid", c.table))
		if err != nil {
			run.Inconclusive("alter reference: " + err.Error())
			continue
		}
		got, err, pm := collectSelect(db, c.table, []string{"a", "b"})
		run.Eval(1)
		aff := sqliteAffinity(c.typ)
		key := fmt.Sprintf("C01/alter-default/%s/%s", aff, c.litname)
		switch {
		case pm != "":
			run.Violation(key+"/panic", "panic: "+pm, nil)
		case err != nil:
			if len(got) > 0 {
				run.Violation(key+"/error-after-rows", "error after rows: "+err.Error(), nil)
			} else {
				run.Count("alter_cases_rejected_by_sqlittle", 1)
			}
		default:
			if df := diffRows(want, got); df != "" {
				run.Violation(key, fmt.Sprintf("ALTER TABLE ADD COLUMN b %s DEFAULT %s: %s", c.typ, c.lit, df), hx.M{"type": c.typ, "default": c.lit})
			} else {
				run.Distinct("alter/" + c.typ + "/" + c.lit)
				run.Count("alter_default_cases_equal", 1)
			}
		}
	}
}

// sqliteAffinity: column affinity from the declared type (datatype3.html 3.1).
func sqliteAffinity(typ string) string {
	u := strings.ToUpper(typ)
	switch {
	case strings.Contains(u, "INT"):
		return "INTEGER"
	case strings.Contains(u, "CHAR"), strings.Contains(u, "CLOB"), strings.Contains(u, "TEXT"):
		return "TEXT"
	case strings.Contains(u, "BLOB"), u == "":
		return "BLOB"
	case strings.Contains(u, "REAL"), strings.Contains(u, "FLOA"), strings.Contains(u, "DOUB"):
		return "REAL"
	}
	return "NUMERIC"
}
