//go:build verif

package props

import (
	"fmt"
	"math"
	"math/rand"
	"strings"
	"unicode/utf8"

	"github.com/alicebob/sqlittle"
	sdb "github.com/alicebob/sqlittle/db"

	"verifharness/hx"
)

func init() {
	register("C02", "exploration", C02)
	register("C03", "exploration", C03)
}

// idxCase pairs an index as sqlittle's Schema lists it with SQLite's view of it.
type idxCase struct {
	t     *hx.TableInfo
	ix    *hx.IndexInfo
	gm    hx.GenIndexMeta
	order string
	where string // " WHERE ..." or ""
	cols  []string
	sel   string
}

// indexCases lists every index sqlittle's Schema reports for the table, matched
// by name with SQLite's. Indexes sqlittle leaves out are counted, not flagged.
func indexCases(run *hx.Run, low *sdb.Database, d *hx.DB, t *hx.TableInfo) []idxCase {
	var s *sdb.Schema
	var err error
	if p, pm := safely(func() { s, err = low.Schema(t.Name) }); p {
		run.Violation("C02/schema-panic/"+t.Name, "Schema panicked: "+pm, nil)
		return nil
	}
	if err != nil {
		run.Count("tables_rejected_by_sqlittle", 1)
		return nil
	}
	var out []idxCase
	listed := map[string]bool{}
	for _, si := range s.Indexes {
		listed[hx.FoldName(si.Index)] = true
	}
	for i := range t.Indexes {
		ix := &t.Indexes[i]
		if !listed[hx.FoldName(ix.Name)] {
			if !(t.WR != 0 && ix.Origin == "pk") {
				run.Count("indexes_left_out_by_sqlittle", 1)
				run.See("left_out", ix.Name)
			}
			continue
		}
		gm := d.Gen[ix.Name]
		c := idxCase{t: t, ix: ix, gm: gm}
		if ix.Partial != 0 {
			if gm.Where == nil {
				run.Count("partial_index_without_generator_metadata", 1)
				continue
			}
			c.where = " WHERE " + *gm.Where
		}
		c.order, err = hx.OrderByIndex(ix, gm, t.RowidName())
		if err != nil {
			run.Count("index_order_unknown", 1)
			continue
		}
		c.cols = t.ColNames()
		c.sel = selectList(c.cols)
		if t.WR == 0 {
			c.cols = append([]string{t.RowidName()}, c.cols...)
			c.sel = t.RowidName() + ", " + c.sel
		}
		out = append(out, c)
	}
	for _, si := range s.Indexes {
		found := false
		for i := range t.Indexes {
			if hx.SameName(t.Indexes[i].Name, si.Index) {
				found = true
			}
		}
		if !found {
			run.Violation("C02/phantom-index/"+t.Name, fmt.Sprintf("sqlittle lists index %q on %s which SQLite does not have", si.Index, t.Name), nil)
		}
	}
	return out
}

func C02(run *hx.Run) {
	run.Rule = "for every index sqlittle's Schema lists on every table of every generated database: IndexedSelect rows (all columns + rowid) vs SQLite's SELECT ... [WHERE partial] ORDER BY <index_xinfo columns with COLLATE and ASC/DESC incl. the appended rowid / pk columns>; count asserted separately. distinct = (database, index) pairs with at least one row"
	run.Assumptions = append(stdAssumptions, "partial WHERE text and expression-column text come from the generator (it wrote the DDL); everything else from PRAGMA index_xinfo")
	profiles := hx.ProfilesReps(run.Tier, run.Seed, 8)
	forEachProfile(run, profiles, func(w *worker, d *hx.DB, idx int) {
		db, err := sqlittle.Open(d.Path)
		if err != nil {
			run.Violation("C02/open", "Open failed: "+err.Error(), d.Profile)
			return
		}
		defer db.Close()
		low, err := sdb.OpenFile(d.Path)
		if err != nil {
			run.Violation("C02/open-low", "OpenFile failed: "+err.Error(), d.Profile)
			return
		}
		defer low.Close()
		for ti := range d.Meta.Tables {
			t := &d.Meta.Tables[ti]
			for _, c := range indexCases(run, low, d, t) {
				want, err := w.o.Query(d.Path, fmt.Sprintf("SELECT %s FROM %s%s ORDER BY %s", c.sel, hx.QuoteIdent(t.Name), c.where, c.order))
				if err != nil {
					run.Inconclusive("reference query failed: " + err.Error())
					continue
				}
				got, err, pm := collectIndexed(db, t.Name, c.ix.Name, c.cols)
				run.Eval(1)
				base := fmt.Sprintf("C02/IndexedSelect/%s/%s", t.Name, c.ix.Name)
				detail := hx.M{"profile": d.Profile, "db_seed": d.Seed, "table": t.Name, "index": c.ix.Name}
				switch {
				case pm != "":
					run.Violation(base+"/"+pmKind(pm), "IndexedSelect: "+pm, detail)
					continue
				case err != nil:
					run.Violation(base+"/error", fmt.Sprintf("IndexedSelect(%s, %s) on a well-formed database: %v (after %d rows)", t.Name, c.ix.Name, err, len(got)), detail)
					continue
				}
				if len(got) != len(want) {
					run.Violation(base+"/count", fmt.Sprintf("IndexedSelect(%s, %s) delivered %d rows, the index covers %d (%s)", t.Name, c.ix.Name, len(got), len(want), hx.ProfileName(idx, d.Profile)), detail)
					continue
				}
				if df := diffRows(want, got); df != "" {
					run.Violation(base+"/"+diffKind(want, got), fmt.Sprintf("IndexedSelect(%s, %s) on %s: %s", t.Name, c.ix.Name, hx.ProfileName(idx, d.Profile), df), detail)
					continue
				}
				run.Count("rows_compared", len(got))
				run.Count("indexes_compared", 1)
				run.See("index_origin", c.ix.Origin)
				if c.ix.Partial != 0 {
					run.See("index_feature", "partial")
				}
				for _, xc := range c.ix.Cols {
					if xc.Key == 1 {
						if xc.Desc != 0 {
							run.See("index_feature", "desc")
						}
						if xc.Coll != nil && *xc.Coll != "BINARY" {
							run.See("index_feature", "collate-"+*xc.Coll)
						}
						if xc.Cid == -2 {
							run.See("index_feature", "expression")
						}
					}
				}
				if t.WR != 0 {
					run.See("index_feature", "on-without-rowid")
				}
				if st, ok := d.Stat[c.ix.Name]; ok {
					run.See("index_depth", fmt.Sprint(st.Depth))
					if st.Overflow > 0 {
						run.See("index_feature", "spilled-payload")
					}
					if st.Interior > 0 {
						run.Count("interior_index_pages", st.Interior)
					}
				}
				if len(got) > 0 {
					run.Distinct(fmt.Sprintf("%d/%s", idx, c.ix.Name))
					if ti%3 == 0 {
						run.Sample(hx.M{"db": hx.ProfileName(idx, d.Profile), "table": t.Name, "index": c.ix.Name, "order_by": c.order, "where": c.where, "rows": len(got), "first": hx.RowString(got[0])})
					}
				}
			}
		}
	})
	if run.Seen("index_feature", "on-without-rowid") == 0 || run.Seen("index_feature", "desc") == 0 {
		run.Inconclusive("corpus lacks WITHOUT ROWID secondary indexes or DESC columns")
	}
}

// neighbours of a stored value for equality-key generation.
func neighbours(v hx.Value, rng *rand.Rand) []hx.Value {
	var out []hx.Value
	switch x := v.(type) {
	case nil:
		out = append(out, int64(0), "", []byte{})
	case int64:
		if x < math.MaxInt64 {
			out = append(out, x+1)
		}
		if x > math.MinInt64 {
			out = append(out, x-1)
		}
		f := float64(x)
		out = append(out, f, f+0.5, fmt.Sprint(x))
	case float64:
		out = append(out, math.Nextafter(x, math.Inf(1)), math.Nextafter(x, math.Inf(-1)))
		if x == math.Trunc(x) && x >= -9.2e18 && x <= 9.2e18 {
			out = append(out, int64(x), int64(x)+1)
		}
	case string:
		out = append(out, strings.ToUpper(x), strings.ToLower(x), x+" ", x+"\t", x+"a", strings.TrimRight(x, " "), []byte(x), x+"  ")
		if len(x) > 0 {
			s := x[:len(x)-1]
			for len(s) > 0 && !utf8.ValidString(s) {
				s = s[:len(s)-1]
			}
			out = append(out, s)
		}
	case []byte:
		if utf8.Valid(x) {
			out = append(out, string(x))
		}
		out = append(out, append(append([]byte{}, x...), 0))
		if len(x) > 0 {
			out = append(out, append([]byte{}, x[:len(x)-1]...))
		}
	}
	return out
}

var otherClassValues = []hx.Value{nil, int64(0), int64(9007199254740992), int64(9007199254740993), float64(9007199254740992),
	float64(9223372036854775808), float64(18446744073709551615), int64(math.MaxInt64), int64(math.MinInt64), 0.5, "", "a", []byte{}, []byte("a"), int64(1), int64(70000), 1.5}

// goTypedKey gives the key in other Go types the Key documentation accepts, without changing its meaning.
func goTypedKey(k []hx.Value, salt int) sqlittle.Key {
	out := make(sqlittle.Key, len(k))
	for i, v := range k {
		out[i] = v
		switch x := v.(type) {
		case int64:
			switch (salt + i) % 5 {
			case 0:
				out[i] = int(x)
			case 1:
				if x >= math.MinInt32 && x <= math.MaxInt32 {
					out[i] = int32(x)
				}
			case 2:
				if x >= 0 {
					out[i] = uint(x)
				}
			case 3:
				if x >= 0 && x <= math.MaxUint32 {
					out[i] = uint32(x)
				}
			default:
				if x == 0 || x == 1 {
					out[i] = x == 1
				}
			}
		case float64:
			switch {
			case x == 9223372036854775808:
				out[i] = []interface{}{uint(1 << 63), uint(1<<63 + 5), uint(1<<63 + 1024)}[(salt+i)%3]
			case x == 18446744073709551615:
				out[i] = uint(math.MaxUint64)
			case float64(float32(x)) == x && (salt+i)%2 == 0:
				out[i] = float32(x)
			}
		}
	}
	return out
}

func C03(run *hx.Run) {
	run.Rule = "for every index sqlittle lists (IndexedSelectEq) and every index-backed or WITHOUT ROWID primary key (PKSelect), for every prefix length 0..n: keys = distinct stored key tuples (sampled per index) plus single-column mutations (+-1, same number in the other numeric class, case swaps, trailing space/tab, shorter/longer, text<->blob, 2^53 and 2^63 neighbours, NULL, other storage classes); expected = SQLite's SELECT ... WHERE (+k) COLLATE c IS ? AND ... [AND partial] ORDER BY <index order>. distinct = distinct (database, index, key) triples; non-trivial = all (each is a b-tree search)"
	run.Assumptions = append(stdAssumptions, "unary + removes column affinity so SQLite compares by storage class, as the property states")
	profiles := hx.Profiles(run.Tier, run.Seed)
	perIndex := 40
	if run.Thorough() {
		perIndex = 200
	}
	forEachProfile(run, profiles, func(w *worker, d *hx.DB, idx int) {
		rng := rand.New(rand.NewSource(run.Seed*977 + int64(idx)))
		db, err := sqlittle.Open(d.Path)
		if err != nil {
			run.Violation("C03/open", "Open failed: "+err.Error(), d.Profile)
			return
		}
		defer db.Close()
		low, err := sdb.OpenFile(d.Path)
		if err != nil {
			run.Violation("C03/open-low", "OpenFile failed: "+err.Error(), d.Profile)
			return
		}
		defer low.Close()
		for ti := range d.Meta.Tables {
			t := &d.Meta.Tables[ti]
			cases := indexCases(run, low, d, t)
			// the primary key: index-backed (rowid tables) or the table itself (WITHOUT ROWID)
			type target struct {
				c  idxCase
				pk bool
			}
			var targets []target
			for _, c := range cases {
				targets = append(targets, target{c, false})
				if c.ix.Origin == "pk" {
					targets = append(targets, target{c, true})
				}
			}
			if t.WR != 0 {
				if pk := t.PKIndex(); pk != nil {
					order, _ := hx.OrderByTable(t)
					targets = append(targets, target{idxCase{t: t, ix: pk, order: order, cols: t.ColNames(), sel: selectList(t.ColNames())}, true})
				}
			}
			for _, tg := range targets {
				c := tg.c
				kcols := c.ix.KeyCols()
				// expressions for the key columns
				var kex []string
				ei := 0
				okx := true
				for _, kc := range kcols {
					switch {
					case kc.Cid >= 0 && kc.Name != nil:
						kex = append(kex, hx.QuoteIdent(*kc.Name))
					case kc.Cid == -2 && ei < len(c.gm.Exprs):
						kex = append(kex, "("+c.gm.Exprs[ei]+")")
						ei++
					default:
						okx = false
					}
				}
				if !okx {
					run.Count("index_key_expression_unknown", 1)
					continue
				}
				distinctRows, err := w.o.Query(d.Path, fmt.Sprintf("SELECT DISTINCT %s FROM %s%s", strings.Join(kex, ", "), hx.QuoteIdent(t.Name), c.where))
				if err != nil {
					run.Inconclusive("reference distinct-keys query failed: " + err.Error())
					continue
				}
				rng.Shuffle(len(distinctRows), func(a, b int) { distinctRows[a], distinctRows[b] = distinctRows[b], distinctRows[a] })
				if len(distinctRows) > perIndex {
					distinctRows = distinctRows[:perIndex]
				}
				for plen := 0; plen <= len(kcols); plen++ {
					// keys of this prefix length
					keys := [][]hx.Value{}
					seen := map[string]bool{}
					addKey := func(k []hx.Value) {
						kk := hx.RowKey(k)
						if !seen[kk] {
							seen[kk] = true
							keys = append(keys, k)
						}
					}
					if plen == 0 {
						addKey([]hx.Value{})
					}
					for _, dr := range distinctRows {
						if plen == 0 {
							break
						}
						base := []hx.Value(dr[:plen])
						addKey(base)
						col := rng.Intn(plen)
						for _, nb := range neighbours(base[col], rng) {
							k := append([]hx.Value{}, base...)
							k[col] = nb
							addKey(k)
						}
						if rng.Intn(4) == 0 {
							k := append([]hx.Value{}, base...)
							k[col] = otherClassValues[rng.Intn(len(otherClassValues))]
							addKey(k)
						}
					}
					if plen > 0 {
						for _, ov := range otherClassValues {
							k := make([]hx.Value, plen)
							for i := range k {
								k[i] = ov
							}
							addKey(k)
						}
					}
					var conds []string
					for i := 0; i < plen; i++ {
						conds = append(conds, fmt.Sprintf("(+%s) COLLATE %s IS ?%d", kex[i], *kcols[i].Coll, i+1))
					}
					where := c.where
					if len(conds) > 0 {
						if where == "" {
							where = " WHERE " + strings.Join(conds, " AND ")
						} else {
							where = " WHERE (" + strings.TrimPrefix(where, " WHERE ") + ") AND " + strings.Join(conds, " AND ")
						}
					}
					q := fmt.Sprintf("SELECT %s FROM %s%s ORDER BY %s", c.sel, hx.QuoteIdent(t.Name), where, c.order)
					res, err := w.o.QueryMany(d.Path, q, keys)
					if err != nil {
						run.Inconclusive("reference eq query failed: " + err.Error() + " :: " + q)
						continue
					}
					// every key twice on the warm handle: in generation order (a stored key, then its neighbours) and
					// again in reverse, so that whatever a lookup leaves behind in cached pages meets another successor
					order := make([]int, 0, 2*len(keys))
					for ki := range keys {
						order = append(order, ki)
					}
					for ki := len(keys) - 1; ki >= 0; ki-- {
						order = append(order, ki)
					}
					for oi, ki := range order {
						k := keys[ki]
						want := res[ki]
						var got []hx.Row
						var err error
						var pm string
						op := "IndexedSelectEq"
						// on the reverse pass the key is given in another Go type with the same meaning (int, int32,
						// uint, uint32, float32, bool; an unsigned value beyond int64 means the REAL it rounds to)
						gokey := sqlittle.Key(k)
						if oi >= len(keys) {
							gokey = goTypedKey(k, oi)
						}
						if tg.pk {
							op = "PKSelect"
							got, err, pm = collectPK(db, t.Name, gokey, c.cols)
						} else {
							got, err, pm = collectIndexedEq(db, t.Name, c.ix.Name, gokey, c.cols)
						}
						run.Eval(1)
						base := fmt.Sprintf("C03/%s/%s/%s", op, t.Name, c.ix.Name)
						if oi >= len(keys) {
							base += "/reverse-order-pass"
						}
						detail := hx.M{"profile": d.Profile, "db_seed": d.Seed, "table": t.Name, "index": c.ix.Name, "key": hx.EncodeRow(k)}
						switch {
						case pm != "":
							run.Violation(base+"/"+pmKind(pm), op+": "+pm, detail)
						case err != nil:
							run.Violation(base+"/error", fmt.Sprintf("%s(%s, %s, %s): %v", op, t.Name, c.ix.Name, hx.RowString(k), err), detail)
						default:
							if df := diffRows(want, got); df != "" {
								kinds := make([]string, len(k))
								for i, v := range k {
									kinds[i] = hx.Class(v)
								}
								run.Violation(fmt.Sprintf("%s/%s/key-%s", base, diffKind(want, got), strings.Join(kinds, ",")),
									fmt.Sprintf("%s(%s, %s, key=%s) on %s: %s", op, t.Name, c.ix.Name, hx.RowString(k), hx.ProfileName(idx, d.Profile), df), detail)
							} else {
								if len(got) > 0 {
									run.Count("lookups_nonempty", 1)
									if len(got) > 1 {
										run.Count("lookups_multirow", 1)
									}
								} else {
									run.Count("lookups_empty", 1)
								}
							}
						}
						run.Distinct(fmt.Sprintf("%d/%s/%s/%v/%s", idx, t.Name, c.ix.Name, tg.pk, hx.RowKey(k)))
						run.See("prefix_length", fmt.Sprint(plen))
					}
					if plen == 1 && ti%3 == 0 && len(keys) > 2 {
						run.Sample(hx.M{"db": hx.ProfileName(idx, d.Profile), "query": q, "key": hx.RowString(keys[1]), "rows": len(res[1])})
					}
				}
				for _, kc := range kcols {
					if kc.Coll != nil {
						run.See("key_collation", *kc.Coll)
					}
					if kc.Desc != 0 {
						run.See("key_direction", "desc")
					} else {
						run.See("key_direction", "asc")
					}
				}
				if tg.pk {
					run.See("target", "primary-key/"+tableKind(t))
				} else {
					run.See("target", "index/"+tableKind(t))
				}
			}
		}
	})
}
