//go:build verif

package props

import (
	"bytes"
	"context"
	gosql "database/sql"
	"encoding/json"
	"fmt"
	"hash/fnv"
	"math/rand"
	"os"
	"os/exec"
	"path/filepath"
	"runtime"
	"sort"
	"strings"
	"sync"
	"sync/atomic"

	"github.com/alicebob/sqlittle"
	sdb "github.com/alicebob/sqlittle/db"

	"verifharness/hx"
)

func init() {
	register("C20", "exploration", C20)
	workerMains["c20ref"] = c20RefWorker
	workerMains["c20cold"] = c20ColdWorker
}

// c20RefWorker prints, from a FRESH process, the result signature of every catalogue operation on
// one file: "the result the operation returns when run alone" must not depend on anything another
// handle did earlier in the same process.
func c20RefWorker(args []string) {
	path := args[0]
	data, err := os.ReadFile(path)
	out := map[string]string{}
	if err == nil {
		if ops, err := buildOps(data, true, 0); err == nil {
			if h, closeH, err := openFileHandle(path); err == nil {
				for _, op := range ops {
					out[op.name] = resultSig(op.run(h, 0))
				}
				closeH()
			}
		}
	}
	b, _ := json.Marshal(out)
	fmt.Println(string(b))
}

func c20Reference(path string) (map[string]string, error) {
	exe := os.Getenv("VERIF_VRUN")
	if exe == "" {
		exe, _ = os.Executable()
	}
	outb, runErr := exec.Command(exe, "worker", "c20ref", path).Output()
	m := map[string]string{}
	lines := strings.Split(strings.TrimSpace(string(outb)), "\n")
	if err := json.Unmarshal([]byte(lines[len(lines)-1]), &m); err != nil {
		if runErr != nil {
			return nil, runErr
		}
		return nil, err
	}
	// a complete reference with a non-zero exit is the race detector's exit code (66): the reference process
	// runs every operation alone on one goroutine, so its reports (read from the shared log at the end of the
	// check) are races inside a single handle's own operations
	if len(m) == 0 {
		return nil, fmt.Errorf("empty reference")
	}
	return m, nil
}

func resultSig(r opResult) string {
	h := fnv.New64a()
	for _, row := range r.rows {
		h.Write([]byte(hx.RowKey(row)))
		h.Write([]byte{0})
	}
	e := ""
	if r.err != nil {
		e = r.err.Error()
	}
	return fmt.Sprintf("%d rows %x err=%q panic=%v", len(r.rows), h.Sum64(), e, r.panicMsg != "")
}

func openFileHandle(path string) (*handle, func(), error) {
	hi, err := sqlittle.Open(path)
	if err != nil {
		return nil, nil, err
	}
	low, err := sdb.OpenFile(path)
	if err != nil {
		hi.Close()
		return nil, nil, err
	}
	return &handle{hi: hi, low: low}, func() { hi.Close(); low.Close() }, nil
}

func C20(run *hx.Run) {
	run.Rule = "N in {4,16,64} goroutines, each with its OWN handles (high-level DB + low-level Database) on the same file or on different files, run M PRNG-chosen operations from the full catalogue (selects, indexed selects/eq with every collation, rowid and pk lookups, low-level scans / ScanMin / ScanEq / ScanRange, schema calls, sql.Parse) plus database/sql queries through one shared pool, under the Go race detector at GOMAXPROCS 2/16; every result signature must equal the signature of the same operation run alone; race reports are read from the detector's log and de-duplicated by outermost entry-point pair; a global sequence counter stamps operation start/end so the evidence lists which operation-kind pairs actually overlapped. distinct = (round, goroutine, step) executions"
	run.Assumptions = append(stdAssumptions, "the race detector only sees the interleavings that occurred; no SQLite writer is active (lock interplay of several handles in one process is C06's finding)")
	raceEnabledNote(run)
	dir, cleanup := hx.ScratchDir("C20")
	defer cleanup()
	o := mustOracle(run)
	if o == nil {
		return
	}
	nFiles := 4
	var paths []string
	var catalogs [][]op
	var seq []map[string]string
	for i := 0; i < nFiles; i++ {
		// file 0 is larger than the 100-page cache of a handle (every full scan evicts); file 1 has rows and index entries whose payloads are 64 KiB and more (assembled from 16+ overflow pages); file 3 has the same table names and column lists as the others, but another primary key order in t_wr
		d, err := hx.BuildDB(o, dir, fmt.Sprintf("c%d", i), hx.M{"page_size": []int{512, 4096, 1024, 1024}[i], "rows": []int{1500, 300, 200, 200}[i], "frag": i == 1, "wr_variant": i == 3, "big_extra": [][]int{{2577, 5632}, {70000, 66000, 90001, 131072, 20497, 45056}, {5137, 11264}, {5137, 11264}}[i]}, run.Seed*5+int64(i))
		if err != nil {
			run.Inconclusive("corpus: " + err.Error())
			o.Close()
			return
		}
		data, _ := os.ReadFile(d.Path)
		ops, err := buildOps(data, true, 0)
		if err != nil {
			run.Inconclusive("catalogue: " + err.Error())
			o.Close()
			return
		}
		if i == 1 {
			// a leftover PERSIST journal (header zeroed) next to this file: every read transaction looks at it
			o.Exec(d.Path, "PRAGMA journal_mode=PERSIST", "UPDATE t_one SET x = 'persist'")
		}
		paths = append(paths, d.Path)
		catalogs = append(catalogs, ops)
		// reference: every operation alone, in a fresh process per file
		m, err := c20Reference(d.Path)
		if err != nil {
			run.Inconclusive("reference process failed: " + err.Error())
			o.Close()
			return
		}
		seq = append(seq, m)
	}
	// a file with the rarer schema features (DEFAULTs that need conversion, collations, expression index)
	cold := filepath.Join(dir, "cold.sqlite")
	if err := o.Exec(cold, "CREATE TABLE d(a INTEGER PRIMARY KEY, n INTEGER DEFAULT '42', r REAL DEFAULT '1.5', t TEXT DEFAULT 7, u NUMERIC DEFAULT ' 12 ')", "INSERT INTO d(a) VALUES(1),(2),(3),(7)",
		"ALTER TABLE d ADD COLUMN m NUMERIC DEFAULT '0x10'", "ALTER TABLE d ADD COLUMN f DEFAULT 1000", "CREATE INDEX d_n ON d(n DESC, t COLLATE NOCASE)",
		"CREATE TABLE w(k TEXT COLLATE RTRIM, v, PRIMARY KEY(k DESC)) WITHOUT ROWID", "INSERT INTO w VALUES('x ', 1),('y', 2)", "CREATE UNIQUE INDEX w_v ON w(v)"); err != nil {
		run.Inconclusive("cold-start file: " + err.Error())
	}
	o.Close()
	c20ColdStart(run, []string{cold, paths[1], paths[3]}, map[bool]int{false: 3, true: 12}[run.Thorough()])
	// database/sql reference
	sqlSig := func(sq *gosql.DB, q string) string {
		rows, _, err := sqlRows(sq, context.Background(), q)
		return resultSig(opResult{rows: rows, err: err})
	}
	pool, err := gosql.Open("sqlittle", paths[0])
	if err != nil {
		run.Violation("C20/sql-open", err.Error(), nil)
		return
	}
	defer pool.Close()
	queries := []string{"SELECT * FROM t_plain", "SELECT a, b FROM t_alias", "SELECT * FROM t_wr", "SELECT k, v FROM t_pk", "SELECT * FROM nosuch"}
	sqlRef := map[string]string{}
	for _, q := range queries {
		sqlRef[q] = sqlSig(pool, q)
	}
	parseInputs := []string{"CREATE TABLE t(a INTEGER PRIMARY KEY, b TEXT COLLATE NOCASE UNIQUE, UNIQUE(b DESC))", "CREATE INDEX i ON t(a, b COLLATE RTRIM DESC) WHERE a > 1", "SELECT a, * FROM t", "CREATE TABLE (", "CREATE TABLE t(a REFERENCES o(x) ON DELETE CASCADE)"}
	parseRef := map[string]parseOut{}
	for _, s := range parseInputs {
		parseRef[s] = parseOnce(s)
	}

	// nested result sets on ONE database/sql connection / transaction: every statement has its own handle
	{
		ctx := context.Background()
		nested := func(kind string, q func(string) (*gosql.Rows, error)) {
			outer, err := q("SELECT id FROM t_alias")
			if err != nil {
				run.Violation("C20/nested-cursors/"+kind+"/outer", "outer query failed: "+err.Error(), nil)
				return
			}
			defer outer.Close()
			n := 0
			for outer.Next() && n < 5 {
				n++
				inner, err := q("SELECT * FROM t_plain")
				if err != nil {
					run.Violation("C20/nested-cursors/"+kind, fmt.Sprintf("a second result set on the same %s while the first is open: %v (alone: %s)", kind, err, sqlRef["SELECT * FROM t_plain"]), nil)
					return
				}
				cnt := 0
				for inner.Next() {
					cnt++
				}
				ierr := inner.Err()
				inner.Close()
				run.Eval(1)
				if want := sqlRef["SELECT * FROM t_plain"]; ierr != nil || !strings.HasPrefix(want, fmt.Sprintf("%d rows ", cnt)) {
					run.Violation("C20/nested-cursors/"+kind+"/result", fmt.Sprintf("inner result set on the same %s: %d rows err=%v, alone: %s", kind, cnt, ierr, want), nil)
					return
				}
			}
			run.See("nested_cursors", kind)
		}
		if conn, err := pool.Conn(ctx); err == nil {
			nested("sql.Conn", func(q string) (*gosql.Rows, error) { return conn.QueryContext(ctx, q) })
			conn.Close()
		}
		if tx, err := pool.BeginTx(ctx, nil); err == nil {
			nested("sql.Tx", func(q string) (*gosql.Rows, error) { return tx.QueryContext(ctx, q) })
			tx.Rollback()
		}
	}

	var seqNo int64
	type span struct {
		kind       string
		start, end int64
	}
	var spansMu sync.Mutex
	var spans []span
	rounds := 4
	M := 60
	if run.Thorough() {
		rounds = 10
		M = 300
	}
	old := runtime.GOMAXPROCS(0)
	defer runtime.GOMAXPROCS(old)
	for round := 0; round < rounds; round++ {
		for _, N := range []int{4, 16, 64} {
			procs := []int{16, 2}[(round+N)%2]
			runtime.GOMAXPROCS(procs)
			var wg sync.WaitGroup
			for g := 0; g < N; g++ {
				wg.Add(1)
				go func(g int) {
					defer wg.Done()
					rng := rand.New(rand.NewSource(run.Seed*1000 + int64(round*100000+N*1000+g)))
					// same file for even goroutines, spread over files for odd ones
					fi := 0
					if g%2 == 1 {
						fi = (g / 2) % nFiles
					}
					h, closeH, err := openFileHandle(paths[fi])
					if err != nil {
						run.Violation("C20/open", err.Error(), nil)
						return
					}
					defer closeH()
					ops := catalogs[fi]
					var local []span
					for step := 0; step < M; step++ {
						s0 := atomic.AddInt64(&seqNo, 1)
						kind := ""
						switch x := rng.Intn(20); {
						case x == 0:
							q := queries[rng.Intn(len(queries))]
							kind = "database/sql"
							if got := sqlSig(pool, q); got != sqlRef[q] {
								run.Violation("C20/result/database-sql", fmt.Sprintf("%q through the shared pool under concurrency: %s, alone: %s", q, got, sqlRef[q]), nil)
							}
						case x == 1:
							s := parseInputs[rng.Intn(len(parseInputs))]
							kind = "sql.Parse"
							if got := parseOnce(s); !sameParse(got, parseRef[s]) {
								run.Violation("C20/result/parse", fmt.Sprintf("Parse(%q) under concurrency differs from the result alone", s), nil)
							}
						default:
							op := ops[rng.Intn(len(ops))]
							kind = op.kind
							got := resultSig(op.run(h, 0))
							if want := seq[fi][op.name]; got != want {
								run.Violation("C20/result/"+op.kind, fmt.Sprintf("%s on file %d with %d goroutines (GOMAXPROCS %d): %s, alone: %s", op.name, fi, N, procs, got, want), hx.M{"op": op.name, "goroutines": N})
							}
						}
						s1 := atomic.AddInt64(&seqNo, 1)
						local = append(local, span{kind, s0, s1})
						run.Eval(1)
					}
					spansMu.Lock()
					if len(spans) < 200000 {
						spans = append(spans, local...)
					}
					spansMu.Unlock()
				}(g)
			}
			wg.Wait()
			run.DistinctN(N * M)
			run.See("goroutines", fmt.Sprint(N))
			run.See("gomaxprocs", fmt.Sprint(procs))
		}
	}
	// which kinds overlapped?
	sort.Slice(spans, func(a, b int) bool { return spans[a].start < spans[b].start })
	pairs := map[string]int{}
	for i := range spans {
		for j := i + 1; j < len(spans) && j < i+80 && spans[j].start < spans[i].end; j++ {
			a, b := spans[i].kind, spans[j].kind
			if a > b {
				a, b = b, a
			}
			pairs[a+" || "+b]++
		}
	}
	run.SetExtra("overlapping_operation_kind_pairs_observed", len(pairs))
	top := make([]string, 0, len(pairs))
	for k := range pairs {
		top = append(top, k)
	}
	sort.Slice(top, func(a, b int) bool { return pairs[top[a]] > pairs[top[b]] })
	if len(top) > 12 {
		top = top[:12]
	}
	for _, k := range top {
		run.Sample(hx.M{"overlapped": k, "times": pairs[k]})
	}
	if len(pairs) < 10 {
		run.Inconclusive(fmt.Sprintf("only %d overlapping operation-kind pairs were observed: not enough concurrency", len(pairs)))
	}
	_ = filepath.Join
	reportRaces(run, "C20")
}

// c20SharedKeys are handed to every goroutine of the cold-start worker as they are: a Key is an argument, the
// library has no business writing to it.
var c20SharedKeys = []sqlittle.Key{{7}, {int32(3)}, {uint(2)}, {true}, {uint32(5), "x"}, {float32(1.5)}, {int64(1)}}

// c20ColdWorker: the FIRST thing this process does with the library is to use it from many goroutines at once,
// each with its own handles, released together - what is set up lazily on first use (compiled patterns, tables,
// memoised definitions) meets its race here, and nowhere else: every other part of the check has used the
// library sequentially before its goroutines start. Prints one signature per goroutine.
func c20ColdWorker(args []string) {
	n := 16
	sigs := make([]string, n)
	start := make(chan struct{})
	var wg sync.WaitGroup
	for g := 0; g < n; g++ {
		wg.Add(1)
		go func(g int) {
			defer wg.Done()
			<-start
			h := fnv.New64a()
			for _, path := range args {
				hi, err := sqlittle.Open(path)
				if err != nil {
					fmt.Fprintf(h, "open %v|", err)
					continue
				}
				low, err := sdb.OpenFile(path)
				if err != nil {
					hi.Close()
					fmt.Fprintf(h, "openfile %v|", err)
					continue
				}
				var tables []string
				if low.RLock() == nil {
					tables, _ = low.Tables()
					low.RUnlock()
				}
				sort.Strings(tables)
				for _, t := range tables {
					cols, err := hi.Columns(t)
					fmt.Fprintf(h, "%s cols=%v err=%v|", t, cols, err)
					rows, err, pm := collectSelect(hi, t, cols)
					fmt.Fprintf(h, "select %s|", resultSig(opResult{rows: rows, err: err, panicMsg: pm}))
					for _, k := range c20SharedKeys {
						prow, perr, ppm := collectPK(hi, t, k, cols)
						fmt.Fprintf(h, "pk %s|", resultSig(opResult{rows: prow, err: perr, panicMsg: ppm}))
					}
					if low.RLock() == nil {
						if sc, err := low.Schema(t); err == nil {
							for _, ix := range sc.Indexes {
								low.RUnlock()
								var got []hx.Row
								ierr := hi.IndexedSelect(t, ix.Index, func(r sqlittle.Row) { got = append(got, hx.CloneRow(r)) }, cols...)
								fmt.Fprintf(h, "ix %s %s|", ix.Index, resultSig(opResult{rows: got, err: ierr}))
								for _, k := range c20SharedKeys {
									var eq []hx.Row
									eerr := hi.IndexedSelectEq(t, ix.Index, k, func(r sqlittle.Row) { eq = append(eq, hx.CloneRow(r)) }, cols...)
									fmt.Fprintf(h, "eq %s|", resultSig(opResult{rows: eq, err: eerr}))
								}
								low.RLock()
							}
						}
						low.RUnlock()
					}
				}
				hi.Close()
				low.Close()
			}
			for _, in := range []string{"CREATE TABLE t(a INTEGER PRIMARY KEY, n INTEGER DEFAULT '42', b TEXT COLLATE NOCASE UNIQUE)", "CREATE INDEX i ON t(a, lower(b) DESC) WHERE a > 1", "SELECT a, * FROM t"} {
				fmt.Fprintf(h, "parse %+v|", parseOnce(in))
			}
			sigs[g] = fmt.Sprintf("%x", h.Sum64())
		}(g)
	}
	close(start)
	wg.Wait()
	b, _ := json.Marshal(sigs)
	fmt.Println(string(b))
}

// c20ColdStart runs the cold-start worker a few times (each a fresh process) and compares the goroutines' signatures.
func c20ColdStart(run *hx.Run, paths []string, times int) {
	exe := os.Getenv("VERIF_VRUN")
	if exe == "" {
		exe, _ = os.Executable()
	}
	for i := 0; i < times; i++ {
		cmd := exec.Command(exe, append([]string{"worker", "c20cold"}, paths...)...)
		cmd.Env = append(os.Environ(), fmt.Sprintf("GOMAXPROCS=%d", []int{16, 4, 2}[i%3]))
		var stderr bytes.Buffer
		cmd.Stderr = &stderr
		outb, runErr := cmd.Output()
		var sigs []string
		lines := strings.Split(strings.TrimSpace(string(outb)), "\n")
		if err := json.Unmarshal([]byte(lines[len(lines)-1]), &sigs); err != nil || len(sigs) == 0 {
			msg := clip(stderr.String(), 1500)
			if strings.Contains(msg, "DATA RACE") {
				continue // counted from the detector's log below
			}
			run.Violation("C20/cold-start/crash", fmt.Sprintf("a fresh process whose first use of the library is 16 goroutines at once (own handles each) did not finish: %v; %s", runErr, msg), nil)
			continue
		}
		run.Eval(len(sigs))
		run.DistinctN(len(sigs))
		same := true
		for _, s := range sigs {
			if s != sigs[0] {
				same = false
			}
		}
		if !same {
			run.Violation("C20/cold-start/results-differ", fmt.Sprintf("a fresh process whose first use of the library is 16 goroutines at once, each with its own handles on the same files: the goroutines' result signatures differ: %v", sigs), nil)
		} else {
			run.See("cold_start_processes", "16 goroutines agree")
		}
	}
}
