//go:build verif

// vrun runs one property check: vrun -prop C01 -tier quick -seed 1
//
// The check itself runs in a child process (the same binary with VERIF_CHILD=1)
// so that a fatal runtime error inside sqlittle (SIGSEGV/SIGBUS on the memory
// map, stack exhaustion, a panic on a goroutine the monitors do not own, a data
// race abort) ends the child, not the verdict: the parent turns an abnormal end
// into a VIOLATION with the crash output as the witness.
package main

import (
	"bytes"
	"crypto/sha1"
	"encoding/hex"
	"encoding/json"
	"flag"
	"fmt"
	"io"
	"os"
	"os/exec"
	"path/filepath"
	"runtime/debug"
	"strings"
	"sync"

	"verifharness/hx"
	"verifharness/props"
)

const doneMarker = "VRUN-CHILD-DONE rc="

type tail struct {
	mu  sync.Mutex
	buf []byte
}

func (t *tail) Write(p []byte) (int, error) {
	t.mu.Lock()
	t.buf = append(t.buf, p...)
	if len(t.buf) > 256<<10 {
		t.buf = t.buf[len(t.buf)-(128<<10):]
	}
	t.mu.Unlock()
	return len(p), nil
}

func main() {
	if len(os.Args) > 1 && os.Args[1] == "worker" {
		props.WorkerMain(os.Args[2:])
		return
	}
	prop := flag.String("prop", "", "property id")
	tier := flag.String("tier", "quick", "quick|thorough")
	seed := flag.Int64("seed", 1, "PRNG seed")
	flag.Parse()
	if os.Getenv("VERIF_CHILD") == "1" {
		child(*prop, *tier, *seed)
		return
	}
	if _, ok := props.Registry[*prop]; !ok {
		fmt.Printf("INCONCLUSIVE property=%s unknown property\n", *prop)
		os.Exit(2)
	}
	if *tier != "quick" && *tier != "thorough" {
		fmt.Printf("INCONCLUSIVE property=%s unknown tier %q\n", *prop, *tier)
		os.Exit(2)
	}
	exe, err := os.Executable()
	if err != nil {
		fmt.Printf("INCONCLUSIVE property=%s cannot find own executable: %v\n", *prop, err)
		os.Exit(2)
	}
	// every scratch directory of the child (and of its workers) lives under one
	// directory that the parent removes however the child ends
	scratchBase := os.Getenv("VERIF_SCRATCH")
	if scratchBase == "" {
		scratchBase = os.TempDir()
	}
	scratch, err := os.MkdirTemp(scratchBase, "verif-run-"+*prop+"-")
	if err != nil {
		fmt.Printf("INCONCLUSIVE property=%s cannot make a scratch directory: %v\n", *prop, err)
		os.Exit(2)
	}
	exit := func(rc int) {
		os.RemoveAll(scratch)
		os.Exit(rc)
	}
	cmd := exec.Command(exe, os.Args[1:]...)
	cmd.Env = append(os.Environ(), "VERIF_CHILD=1", "GOTRACEBACK=all", "VERIF_SCRATCH="+scratch)
	var outTail, errTail tail
	cmd.Stdout = io.MultiWriter(os.Stdout, &outTail)
	cmd.Stderr = io.MultiWriter(os.Stderr, &errTail)
	runErr := cmd.Run()
	out := string(outTail.buf)
	if i := strings.LastIndex(out, doneMarker); i >= 0 {
		var rc int
		fmt.Sscan(out[i+len(doneMarker):], &rc)
		exit(rc)
	}
	// the child ended without reaching its verdict
	stderr := string(errTail.buf)
	site := "unknown"
	first := ""
	for _, line := range strings.Split(stderr, "\n") {
		if first == "" && (strings.HasPrefix(line, "fatal error:") || strings.HasPrefix(line, "panic:") || strings.Contains(line, "[signal ") || strings.HasPrefix(line, "unexpected fault")) {
			first = strings.TrimSpace(line)
		}
		t := strings.TrimSpace(line)
		if site == "unknown" && strings.HasPrefix(t, "github.com/alicebob/sqlittle") {
			if j := strings.LastIndex(t, "("); j > 0 {
				t = t[:j]
			}
			site = strings.TrimPrefix(strings.TrimPrefix(t, "github.com/alicebob/sqlittle"), "/")
		}
	}
	if first == "" {
		first = fmt.Sprintf("child ended abnormally: %v", runErr)
	}
	cls := first
	for _, pat := range []string{"SIGBUS", "SIGSEGV", "stack overflow", "out of memory", "concurrent map", "all goroutines are asleep", "DATA RACE"} {
		if strings.Contains(stderr, pat) {
			cls = pat
			break
		}
	}
	key := fmt.Sprintf("%s/process-crash/%s/%s", *prop, site, strings.ReplaceAll(cls, " ", "-"))
	known := false
	if b, err := os.ReadFile(filepath.Join(hx.VerifDir(), "known_findings.json")); err == nil {
		var all []hx.KnownFinding
		if json.Unmarshal(b, &all) == nil {
			for _, f := range all {
				if f.Property == *prop && f.Status == "open" && f.Key == key {
					fmt.Printf("KNOWN-FINDING: property=%s %s [%s]\n", *prop, f.What, key)
					known = true
				}
			}
		}
	}
	dir := filepath.Join(hx.VerifDir(), "replays", *prop)
	os.MkdirAll(dir, 0o755)
	sum := sha1.Sum([]byte(key))
	rp := filepath.Join(dir, hex.EncodeToString(sum[:8])+".json")
	b, _ := json.MarshalIndent(map[string]interface{}{"property": *prop, "tier": *tier, "seed": *seed, "key": key, "what": first,
		"detail": map[string]interface{}{"stderr_tail": lastN(stderr, 20000), "stdout_tail": lastN(out, 4000)}}, "", " ")
	os.WriteFile(rp, b, 0o644)
	if known {
		exit(0)
	}
	fmt.Printf("VIOLATION property=%s replay=%s\n  key=%s\n  what=the checking process was killed by a fatal error inside the code under test: %s\n", *prop, rp, key, first)
	exit(1)
}

func lastN(s string, n int) string {
	if len(s) > n {
		return s[len(s)-n:]
	}
	return s
}

func child(prop, tier string, seed int64) {
	spec := props.Registry[prop]
	run := hx.NewRun(prop, tier, seed, spec.Level)
	func() {
		defer func() {
			if r := recover(); r != nil {
				// a panic of the harness itself is never a verdict about sqlittle
				run.Inconclusive(fmt.Sprintf("harness panic: %v\n%s", r, debug.Stack()))
			}
		}()
		spec.Fn(run)
	}()
	rc := run.Finish()
	var b bytes.Buffer
	fmt.Fprintf(&b, "%s%d\n", doneMarker, rc)
	os.Stdout.Write(b.Bytes())
	os.Exit(rc)
}
