//go:build verif

// vrun runs one property check: vrun -prop C01 -tier quick -seed 1
package main

import (
	"flag"
	"fmt"
	"os"
	"runtime/debug"

	"verifharness/hx"
	"verifharness/props"
)

func main() {
	if len(os.Args) > 1 && os.Args[1] == "worker" {
		props.WorkerMain(os.Args[2:])
		return
	}
	prop := flag.String("prop", "", "property id")
	tier := flag.String("tier", "quick", "quick|thorough")
	seed := flag.Int64("seed", 1, "PRNG seed")
	flag.Parse()
	spec, ok := props.Registry[*prop]
	if !ok {
		fmt.Printf("INCONCLUSIVE property=%s unknown property\n", *prop)
		os.Exit(2)
	}
	if *tier != "quick" && *tier != "thorough" {
		fmt.Printf("INCONCLUSIVE property=%s unknown tier %q\n", *prop, *tier)
		os.Exit(2)
	}
	run := hx.NewRun(*prop, *tier, *seed, spec.Level)
	func() {
		defer func() {
			if r := recover(); r != nil {
				// a panic of the harness itself is never a verdict about sqlittle
				run.Inconclusive(fmt.Sprintf("harness panic: %v\n%s", r, debug.Stack()))
			}
		}()
		spec.Fn(run)
	}()
	os.Exit(run.Finish())
}
