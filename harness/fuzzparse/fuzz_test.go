//go:build verif

package fuzzparse

import (
	"reflect"
	"testing"

	"github.com/alicebob/sqlittle/sql"
)

// FuzzParse: sql.Parse must not panic and must be deterministic.
func FuzzParse(f *testing.F) {
	f.Add("CREATE TABLE t(a INTEGER PRIMARY KEY, b TEXT COLLATE NOCASE DEFAULT 'x')")
	f.Add("CREATE UNIQUE INDEX i ON t(a DESC, b COLLATE RTRIM) WHERE a > 1")
	f.Add("SELECT a, * FROM t")
	f.Fuzz(func(t *testing.T, s string) {
		r1, e1 := sql.Parse(s)
		r2, e2 := sql.Parse(s)
		if (e1 == nil) != (e2 == nil) || (e1 != nil && e1.Error() != e2.Error()) || !reflect.DeepEqual(r1, r2) {
			t.Fatalf("nondeterministic parse of %q", s)
		}
	})
}
