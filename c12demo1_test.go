//go:build verif
// +build verif

package sqlittle_test

// Demo for C12 mutation 1: a read fault on the overflow page of a record
// which lives in an INTERIOR index page is swallowed by
// indexInterior.IterMin: the index entry is skipped and the scan carries on.

import (
	"errors"
	"fmt"
	"os"
	"reflect"
	"testing"

	"github.com/alicebob/sqlittle"
	sdb "github.com/alicebob/sqlittle/db"
)

var errC12Demo1Fault = errors.New("injected read fault")

// c12d1Pager serves pages from memory and fails the failAt-th page read
// (counting from 1, after the counter was reset).
type c12d1Pager struct {
	data   []byte
	reads  int
	failAt int
}

func (p *c12d1Pager) Page(n int, pagesize int) ([]byte, error) {
	p.reads++
	if p.failAt > 0 && p.reads == p.failAt {
		return nil, errC12Demo1Fault
	}
	off := (n - 1) * pagesize
	if n < 1 || off+pagesize > len(p.data) {
		return nil, fmt.Errorf("page %d out of range", n)
	}
	buf := make([]byte, pagesize)
	copy(buf, p.data[off:])
	return buf, nil
}
func (p *c12d1Pager) Close() error                     { return nil }
func (p *c12d1Pager) RLock() error                     { return nil }
func (p *c12d1Pager) RUnlock() error                   { return nil }
func (p *c12d1Pager) CheckReservedLock() (bool, error) { return false, nil }

func c12d1Run(t *testing.T, data []byte, failAt int, op func(*sqlittle.DB, sqlittle.RowCB) error) (rows []string, reads int, err error) {
	p := &c12d1Pager{data: data}
	low, err := sdb.VerifOpenPager(p, "")
	if err != nil {
		t.Fatal(err)
	}
	db := sqlittle.VerifWrap(low)
	p.reads = 0
	p.failAt = failAt
	err = op(db, func(r sqlittle.Row) {
		rows = append(rows, fmt.Sprintf("%v", r.ScanStrings()))
	})
	return rows, p.reads, err
}

func TestC12Demo1(t *testing.T) {
	data, err := os.ReadFile("testdata/c12demo1.sqlite")
	if err != nil {
		t.Fatal(err)
	}

	ops := map[string]func(*sqlittle.DB, sqlittle.RowCB) error{
		"IndexedSelectEq(Key{})": func(db *sqlittle.DB, cb sqlittle.RowCB) error {
			// an empty key matches every index entry
			return db.IndexedSelectEq("t", "t_k", sqlittle.Key{}, cb, "id", "v")
		},
	}
	for name, op := range ops {
		want, n, err := c12d1Run(t, data, 0, op)
		if err != nil {
			t.Fatalf("%s: fault free run: %s", name, err)
		}
		if len(want) != 60 {
			t.Fatalf("%s: fault free run has %d rows", name, len(want))
		}
		for k := 1; k <= n; k++ {
			have, _, err := c12d1Run(t, data, k, op)
			if err == nil {
				t.Errorf("%s: fault at read %d/%d: no error reported, %d of %d rows delivered", name, k, n, len(have), len(want))
				continue
			}
			if len(have) > len(want) || (len(have) > 0 && !reflect.DeepEqual(have, want[:len(have)])) {
				t.Errorf("%s: fault at read %d/%d: delivered rows are not a prefix of the result", name, k, n)
			}
		}
	}
}
