#!/bin/bash
# tools/mutant.sh <patch.diff> <check-id>...   — evaluate checks against a scratch copy of /repo with the patch applied.
# The scratch worktree lives under $TMPDIR and is removed afterwards. /repo itself is not touched.
set -u
PATCH=$(readlink -f "$1"); shift
W=$(mktemp -d /tmp/verif-mutant-XXXXXX)
git -C /repo worktree add -q --detach "$W/sqlittle" HEAD || exit 3
trap 'git -C /repo worktree remove --force "$W/sqlittle" >/dev/null 2>&1; rm -rf "$W"' EXIT
if ! git -C "$W/sqlittle" apply "$PATCH"; then echo "PATCH-DOES-NOT-APPLY"; exit 3; fi
export GOFLAGS=-mod=mod GOPROXY=off GOSUMDB=off GOTOOLCHAIN=local
if ! (cd "$W/sqlittle" && go build ./... ) >/dev/null 2>&1; then echo "MUTANT-DOES-NOT-BUILD"; exit 3; fi
if [ "${SKIP_SUITE:-}" != "1" ]; then
  FAILS=$(cd "$W/sqlittle" && go test -vet=off -count=1 ./... 2>&1 | grep -E "^--- FAIL" | grep -v TestIOZero | wc -l)
  echo "existing-suite-extra-failures=$FAILS"
fi
cd "$(dirname "$0")/.."
for ID in "$@"; do
  OUT=$(VERIF_REPO="$W/sqlittle" ./check "$ID" ${TIER:-quick} 2>&1)
  RC=$?
  echo "== $ID rc=$RC $(echo "$OUT" | grep -E '^SUMMARY' | cut -c1-160)"
  echo "$OUT" | grep -E "^  key=" | sort | uniq -c | head -${MAXKEYS:-6}
done
