#!/usr/bin/env python3
"""Regenerates MANIFEST.json from the table below (keeps it schema-valid)."""
import json, os, subprocess
V = os.path.dirname(os.path.dirname(os.path.abspath(__file__)))
BASELINE_OFF = "cd /repo && GOFLAGS=-mod=mod GOPROXY=off GOSUMDB=off go test -json -vet=off -count=1 -timeout 25m ./..."
hook_commits = subprocess.run(["git", "-C", "/repo", "log", "--format=%H", "--grep=^verif hooks"], capture_output=True, text=True).stdout.split()

CHECKS = {}
def chk(pid, level, technique, text, note, design):
    CHECKS[pid] = dict(level=level, technique=technique, text=text, note=note, design=design)

exec(open(os.path.join(V, "tools", "checks_table.py")).read())

props = [json.loads(l) for l in open(os.path.join(V, "properties.jsonl"))]
checks, na = [], []
for p in props:
    pid = p["id"]
    if pid in CHECKS:
        c = CHECKS[pid]
        checks.append({
            "property_id": pid,
            "quick_cmd": "./check %s quick" % pid,
            "thorough_cmd": "./check %s thorough" % pid,
            "evidence_file": "/verif/evidence/%s.json" % pid,
            "replay_cmd_template": "./check %s --replay {path}" % pid,
            "engine": "vrun",
            "level_claimed": {"category": c["level"], "text": c["text"], "design_ref": c["design"]},
            "level_note": c["note"],
            "technique": c["technique"],
        })
    else:
        na.append({"property_id": pid, "reason": NOT_CLAIMED.get(pid, "check not built yet in this phase; no claim is made")})
m = {
    "version": 1,
    "setup_cmd": "./setup.sh",
    "hooks": {
        "guard": "verif",
        "enable": "go build -tags verif (the harness module replaces github.com/alicebob/sqlittle with /repo and is rebuilt by ./check on every invocation)",
        "baseline_off_cmd": BASELINE_OFF,
        "source_commits": hook_commits,
        "add_only": True,
    },
    "engines": [{"name": "vrun", "path": "harness/cmd/vrun", "serves_properties": sorted(CHECKS),
                 "kind_free_text": "Go monitor harness over the real code (+ Python/SQLite 3.40.1 reference process, LD_PRELOAD shim, /proc/locks + F_GETLK observers, race detector)"}],
    "checks": checks,
    "not_applicable": na,
    "notes": "Technique family: runtime monitoring and sanitizers. See DESIGN.md. Exit 2 + INCONCLUSIVE line = the monitor could not observe what it needs (never a verdict).",
}
json.dump(m, open(os.path.join(V, "MANIFEST.json"), "w"), indent=1)
print("checks:", len(checks), "not claimed:", len(na))
