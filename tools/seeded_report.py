#!/usr/bin/env python3
"""Summarises seeded/*/ (agent mutations): confirmation and which check caught each. Writes seeded/REPORT.md
and adds the 'verification' block to each meta.json."""
import json, glob, os, re
rows = []
for d in sorted(glob.glob('/verif/seeded/C*-*')):
    mid = os.path.basename(d)
    try:
        meta = json.load(open(d + '/meta.json'))
        conf = json.load(open(d + '/confirm.json'))
    except Exception as e:
        continue
    caught = {}
    for f in sorted(glob.glob(d + '/eval-*.txt')) + sorted(glob.glob(d + '/cross-*.txt')):
        txt = open(f).read()
        for m in re.finditer(r"== (C\d+) rc=(\d+)", txt):
            keys = re.findall(r"key=(\S+)", txt)
            tier = os.path.basename(f).split('-', 1)[1].replace('.txt', '')
            caught.setdefault(m.group(1), []).append((tier, m.group(2), keys[:3]))
    own = meta.get('property', mid.split('-')[0])
    verdict = 'MISSED'
    by = []
    for chk, lst in caught.items():
        for tier, rc, keys in lst:
            if rc == '1':
                by.append('%s(%s)' % (chk, tier))
    if by:
        verdict = 'caught by ' + ', '.join(sorted(set(by)))
    meta['verification'] = {
        'confirmed_by_me': conf.get('confirmed'), 'demo_cmd': conf.get('demo_cmd'),
        'patch_applies': conf.get('applies'), 'builds': conf.get('builds'), 'pinned_suite_extra_failures': conf.get('suite_extra_failures'),
        'demo_passes_unpatched': conf.get('unpatched_passes', conf.get('unpatched_rc') == 0), 'demo_fails_patched': conf.get('patched_fails', conf.get('patched_rc') not in (0, None)),
        'checks_run': {k: [{'tier': t, 'rc': rc, 'keys': ks} for t, rc, ks in v] for k, v in caught.items()}, 'verdict': verdict,
    }
    json.dump(meta, open(d + '/meta.json', 'w'), indent=1)
    rows.append((mid, own, str(meta.get('summary', ''))[:140].replace('|', '/').replace('\n', ' '), str(meta.get('needs_to_manifest', ''))[:120].replace('|', '/').replace('\n', ' '), verdict))
with open('/verif/seeded/REPORT.md', 'w') as f:
    f.write('| id | property | change | needs to manifest | result |\n|---|---|---|---|---|\n')
    for r in rows:
        f.write('| %s | %s | %s | %s | %s |\n' % r)
print(len(rows), 'mutations;', sum(1 for r in rows if r[4] != 'MISSED'), 'caught')
