#!/bin/bash
# tools/cross_seeded.sh <mutant>:<check>[,<check>...] ...  — run other properties' checks against a seeded mutation; writes seeded/<mutant>/cross-<tier>-<check>.txt
cd "$(dirname "$0")/.."
TIER=${TIER:-quick}
for pair in "$@"; do
  m=${pair%%:*}; cs=${pair#*:}
  for p in ${cs//,/ }; do
    out=$(SKIP_SUITE=1 MAXKEYS=3 TIER=$TIER tools/mutant.sh seeded/$m/patch.diff $p 2>&1)
    echo "$out" > seeded/$m/cross-$TIER-$p.txt
    echo "$m vs $p: $(echo "$out" | grep -oE 'rc=[0-9]+' | head -1) $(echo "$out" | grep -E 'key=' | head -2 | tr -s ' ' | tr '\n' '|')"
  done
done
