NOT_CLAIMED = {}
chk("C11", "exploration", "differential runtime monitor: db.Equals/db.Search vs SQLite dense_rank over an exhaustively paired value grid",
    "Exhaustive over all ordered pairs of a ~300 (quick) / ~1100 (thorough) value grid x 3 collations x ASC/DESC plus PRNG multi-column keys; a total preorder consistent with SQLite's ranks implies totality, transitivity and Equals/Search coherence on the grid. Held on the pairs observed, not a proof over all values.",
    "SQLite 3.40.1 ranks are the reference; NaN and invalid UTF-8 excluded", "DESIGN.md 3 C11")
chk("C01", "exploration", "differential reference-model monitor: DB.Select / Table.Scan vs real SQLite over a generated database corpus",
    "Every table of every generated database (8 page sizes, depth 1..3 quick / 1..4 thorough, overflow chains, fragmented/vacuumed/auto-vacuum files, WITHOUT ROWID, ALTER-grown tables) x several column lists is compared row by row with SQLite. Held on the databases generated for the seed; not a proof over all files.",
    "SQLite 3.40.1 is the reference; integral REAL may surface as integer", "DESIGN.md 3 C01")
