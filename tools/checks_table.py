NOT_CLAIMED = {}
chk("C11", "exploration", "differential runtime monitor: db.Equals/db.Search vs SQLite dense_rank over an exhaustively paired value grid",
    "Exhaustive over all ordered pairs of a ~300 (quick) / ~1100 (thorough) value grid x 3 collations x ASC/DESC plus PRNG multi-column keys; a total preorder consistent with SQLite's ranks implies totality, transitivity and Equals/Search coherence on the grid. Held on the pairs observed, not a proof over all values.",
    "SQLite 3.40.1 ranks are the reference; NaN and invalid UTF-8 excluded", "DESIGN.md 3 C11")
