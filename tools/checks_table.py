NOT_CLAIMED = {}
chk("C11", "exploration", "differential runtime monitor: db.Equals/db.Search vs SQLite dense_rank over an exhaustively paired value grid",
    "Exhaustive over all ordered pairs of a ~300 (quick) / ~1100 (thorough) value grid x 3 collations x ASC/DESC plus PRNG multi-column keys; a total preorder consistent with SQLite's ranks implies totality, transitivity and Equals/Search coherence on the grid. Held on the pairs observed, not a proof over all values.",
    "SQLite 3.40.1 ranks are the reference; NaN and invalid UTF-8 excluded", "DESIGN.md 3 C11")
chk("C01", "exploration", "differential reference-model monitor: DB.Select / Table.Scan vs real SQLite over a generated database corpus",
    "Every table of every generated database (8 page sizes, depth 1..3 quick / 1..4 thorough, overflow chains, fragmented/vacuumed/auto-vacuum files, WITHOUT ROWID, ALTER-grown tables) x several column lists is compared row by row with SQLite. Held on the databases generated for the seed; not a proof over all files.",
    "SQLite 3.40.1 is the reference; integral REAL may surface as integer", "DESIGN.md 3 C01")
chk("C04", "exploration", "reference-model monitor: SelectRowid/Table.Rowid/PKSelect probes chosen structurally (separators, leaf boundaries) vs SQLite rowid map",
    "Every present rowid (sampled on the largest tables in quick tier), both neighbours, int64 extremes, and every separator / leaf-boundary rowid located by an independent page walker, at tree depth 1..3 (quick) / 1..4 (thorough). Held on the probes made.",
    "SQLite 3.40.1 is the reference; the walker only selects probes", "DESIGN.md 3 C04")
chk("C02", "exploration", "differential reference-model monitor: IndexedSelect vs SQLite ORDER BY built from PRAGMA index_xinfo",
    "Every index sqlittle lists on every corpus table (multi-column, COLLATE, DESC, UNIQUE, partial, expression, automatic, WITHOUT ROWID secondaries, spilled payloads, depth 1..3/4) is compared row by row with SQLite's ordering. Held on the generated corpus.",
    "SQLite 3.40.1 is the reference; partial WHERE / expression text from the generator", "DESIGN.md 3 C02")
chk("C03", "exploration", "differential reference-model monitor: IndexedSelectEq/PKSelect vs SQLite WHERE (+k) COLLATE c IS ? over stored keys and their neighbours",
    "Thousands of equality lookups per run: every prefix length, stored keys and single-column mutations across storage classes and collation-sensitive variants, incl. 2^53/2^63 neighbours. Held on the lookups made.",
    "SQLite 3.40.1 is the reference; unary + removes affinity so comparison is by storage class", "DESIGN.md 3 C03")
chk("C12", "fault_enumeration", "fault-injection monitor: one-shot I/O error / short read at every page-read position of every operation (verif pager hook), result must be error + prefix",
    "Exhaustive over the read positions 1..R of each operation run (R capped per op in quick tier, reported), two fault kinds, plus lock failure, on several page sizes and tree depths. Faults the reader cannot detect (bit flips) are out of scope of the property.",
    "in-memory pager with the file pager's copy semantics stands in for the file; keys come from a fault-free scan", "DESIGN.md 3 C12")
chk("C17", "exploration", "runtime monitor on the callback boundary: stop at every row position k (structural positions from a page walker), compare count/prefix/error/lock balance",
    "All k per result up to a cap (500 quick / 3000 thorough), above it every leaf-last / interior-entry / rightmost-child-first position at every level plus a PRNG sample; for Table.Scan, Index.Scan, ScanMin, ScanRange, ScanEq and SelectDone. Held on the (operation,k) pairs run.",
    "hooked in-memory pager (lock balance); page walker only chooses positions", "DESIGN.md 3 C17")
chk("C05", "exploration", "hostile-input runtime monitor: structure-aware corruptions run through every public operation in crash-isolated child workers with logical read/callback budgets, heap limit and watchdog",
    "Thousands (quick) / hundreds of thousands (thorough) of mutated images over ~30 seed files; every public entry point incl. Row.Scan*, the mmap pager with hostile journals and database/sql on a subset. Held = no panic, fatal error, budget overrun or hang on these images; not memory safety.",
    "page walker chooses mutation sites; budgets are logical; a watchdog timeout that does not reproduce alone is inconclusive", "DESIGN.md 3 C05")
chk("C13", "exploration", "reference-model monitor: ScanMin/ScanRange/ScanEq vs the full scan filtered by an independent comparator (itself validated against SQLite ranks)",
    "Every index and WITHOUT ROWID tree of the corpus x cut keys at every page boundary / interior entry (walker), PRNG samples, between-neighbour mutations, below/above all entries, longer-than-record keys. Held on the (index, op, key) triples run.",
    "reference comparator validated against SQLite on the value grid each run; a comparator mismatch is inconclusive", "DESIGN.md 3 C13")
chk("C14", "exploration", "differential decoding monitor: SQLite-written payload-length sweeps per page size + hand-built pages with non-minimal varints, same file read by SQLite and sqlittle",
    "Exhaustive in payload length 0..3*pagesize for 512/1024-byte pages (table, index, WITHOUT ROWID cells), threshold neighbourhoods for the other six page sizes, all integer serial widths at their boundaries, rowid/size/header/serial varints of 1..9 bytes (non-minimal ones via an independent encoder). Held on the cells read.",
    "SQLite 3.40.1 is the reference also for the hand-built files; files it rejects are skipped", "DESIGN.md 3 C14")
chk("C15", "exploration", "exhaustive single-byte header mutation monitor over the pager hook + re-read under an open handle + real WAL / UTF-16 / legacy-format files",
    "Every header byte x every value on a valid base of 3 (quick) / 8 (thorough) page sizes, classified must-refuse / must-accept-with-same-rows / either; header swapped under an open handle between two transactions; real SQLite-written WAL, UTF-16 and schema-format 1-4 files. Exhaustive over single-byte mutations, not over multi-byte combinations.",
    "classification table follows the property text; in-memory pager stands in for the file for the byte sweep", "DESIGN.md 3 C15")
chk("C16", "exploration", "runtime monitor on sql.Parse: panic/determinism over generated, mutated and soup strings (sequential, after unrelated statements, concurrent) + metamorphic element-locality oracle on SQLite-validated statements; coverage-guided fuzzing in thorough tier",
    "Tens of thousands (quick) / ~1M (thorough) strings and every column definition / table constraint / indexed column of thousands of SQLite-accepted statements and their SQLite-accepted single-element edits compared with the element parsed alone. 'All strings' is sampled, not enumerated.",
    "SQLite decides which statements are valid; isolation parse is the locality reference; hang detection is a wall-clock watchdog confirmed alone", "DESIGN.md 3 C16")
chk("C10", "exploration", "differential schema monitor: grammar-generated DDL executed by SQLite, Database.Schema/DB.Columns vs PRAGMA table_xinfo/index_list/index_xinfo by index name, plus behavioural IndexedSelect check",
    "Thousands (quick) / ~90k (thorough) SQLite-accepted CREATE TABLE/INDEX programs; every table sqlittle accepts is compared on columns, WITHOUT ROWID, rowid alias, pk columns and every listed index (name, columns, desc, collation). Held on the programs generated for the seed.",
    "SQLite 3.40.1 pragmas are the reference; omitted indexes / rejected tables are allowed by the property and only counted", "DESIGN.md 3 C10")
chk("C18", "exploration", "runtime monitors: Row.Scan conversion grid vs an independent model of the documented rules + value-lifetime history in a child process (overwrite scanned slices, re-read, close, destroy file, GC)",
    "Every (grid value, destination kind) pair, PRNG rows x destination lists with arities 0..width+2, shortcuts; lifetime histories over all rows of generated databases. Held on the pairs and histories run.",
    "numbers convert by Go conversion on this platform; first-read values are validated against SQLite by C01", "DESIGN.md 3 C18")
chk("C07", "exploration", "schedule-controlled runtime monitor: real SQLite writer frozen before every file/lock syscall (LD_PRELOAD shim), lock state observed in /proc/locks, all reads compared with SQLite's own view from another process",
    "Enumerates every syscall boundary of the writer's transaction for 4 (quick) / ~46 (thorough) scenario x journal-mode x page-size combinations incl. spill, stale PERSIST journal and the PENDING-without-EXCLUSIVE window; two reader kinds per point. Two-party schedules at syscall granularity, not all N-party interleavings.",
    "/proc/locks is truthful; python sqlite3 3.40.1 is the writer and the reference reader", "DESIGN.md 3 C07")
chk("C09", "fault_enumeration", "crash-injection monitor: real SQLite writer killed (or write torn) at its k-th file operation by an LD_PRELOAD shim; sqlittle on the leftover pair vs SQLite's recovery of a copy",
    "Enumerates the syscall boundaries (write/truncate/sync/unlink on database and journal) of 3 (quick, strided + all sync/unlink/truncate neighbours) / ~48 (thorough, every k, kill and torn) scenario x journal-mode x page/sector-size combinations. Process-death crashes only (page cache survives); torn writes at half length.",
    "SQLite's own recovery of a copy is the reference; journal classified by its first bytes", "DESIGN.md 3 C09")
chk("C08", "exploration", "history monitor (long-lived handle vs SQLite's view after every committed write of a PRNG history) + linearizability check of concurrent read/commit histories with porcupine",
    "12 (quick) / 200 (thorough) sequential histories of 40/120 steps over DML, DDL, VACUUM, incremental vacuum, growth and shrink, each read twice, on databases below and above the 100-page cache, through both APIs; 6/60 concurrent histories with two writer processes checked as a single register. Held on the histories generated.",
    "SQLite 3.40.1 in another process is writer and reference; porcupine timeout = inconclusive", "DESIGN.md 3 C08")
chk("C06", "exploration", "schedule-controlled lock monitor: tracing pager over the real file pager stops the reader at every lock/page/unlock event and callback; F_GETLK probe and a real SQLite COMMIT attempt from other processes at every stop; online trace checker",
    "Every operation x exit path (normal, early stop, unknown column/table/index, bad key, corrupt page mid-scan, callback panic) with a probe + writer attempt at every trace event and (strided) callback, plus second-handle injections in the same and in another process. Two parties at lock/page granularity; unix pager only.",
    "F_GETLK / /proc/locks are truthful; python sqlite3 is the writer", "DESIGN.md 3 C06")
