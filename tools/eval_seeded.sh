#!/bin/bash
# tools/eval_seeded.sh [tier] [ids...] : run each seeded mutation against its own property's check; write seeded/<id>/eval-<tier>.txt
cd "$(dirname "$0")/.."
TIER=${1:-quick}; shift
IDS=${@:-$(ls seeded)}
for m in $IDS; do
  p=${m%%-*}
  out=$(SKIP_SUITE=1 MAXKEYS=4 TIER=$TIER tools/mutant.sh seeded/$m/patch.diff $p 2>&1)
  echo "$out" > seeded/$m/eval-$TIER.txt
  rc=$(echo "$out" | grep -oE "rc=[0-9]+" | head -1)
  echo "$m $rc $(echo "$out" | grep -E '^ +[0-9]+ +key=' | head -2 | tr -s ' ' | tr '\n' '|')"
done
