#!/usr/bin/env python3
"""Import agent-produced mutations from /tmp/mut/<ID>.out/<n> into /verif/seeded/<ID>-<n>/ and
confirm each: patch applies to /repo HEAD in a scratch worktree, builds, pinned suite passes
(TestIOZero aside), demo PASSES unpatched and FAILS patched. Writes confirm.json per mutation."""
import json, os, re, shutil, subprocess, sys, tempfile, glob
ENV = dict(os.environ, GOFLAGS="-mod=mod", GOPROXY="off", GOSUMDB="off", GOTOOLCHAIN="local")
def sh(cmd, cwd=None, timeout=600):
    p = subprocess.run(cmd, shell=True, cwd=cwd, env=ENV, capture_output=True, text=True, timeout=timeout, stdin=subprocess.DEVNULL)
    return p.returncode, (p.stdout + p.stderr)
def demo_cmd(how, src, wt, seeded):
    h = how
    # drop parenthetical commentary such as "(passes on HEAD, fails after git apply ...)"
    h = re.sub(r"\s\((?:[^()$]*)(?:pass|fail|PASS|FAIL|HEAD|needs|uses|copies)[^()]*\)", " ", h)
    # cut trailing commentary
    m = re.search(r"\s{2,}\(", h)
    if m:
        h = h[:m.start()]
    h = h.replace("`", "'")
    h = h.replace(src.rstrip('/') , seeded).replace(src.rstrip('/').rsplit('.out',1)[0], wt)
    parts = re.split(r"(&&|;)", h)
    out = []
    for seg in parts:
        s = seg.strip()
        if s in ("&&", ";"):
            out.append(s); continue
        if s.startswith("git ") or " git apply" in s or s.startswith("(cd") and "git " in s:
            out.append("true"); continue
        out.append(s)
    return " ".join(out)
SRC = os.environ.get("SEEDED_SRC", "/tmp/mut")
TAG = os.environ.get("SEEDED_TAG", "")
ids = [a for a in sys.argv[1:] if not a.startswith("--")] or sorted(os.path.basename(p)[:-4] for p in glob.glob(SRC + '/C*.out'))
for pid in ids:
    for n in ("1", "2", "3"):
        src = "%s/%s.out/%s" % (SRC, pid, n)
        if not os.path.exists(src + "/meta.json") or not os.path.exists(src + "/patch.diff"):
            continue
        dst = "/verif/seeded/%s-%s%s" % (pid, TAG, n)
        if os.path.exists(dst + "/confirm.json") and "--force" not in sys.argv:
            continue
        shutil.rmtree(dst, ignore_errors=True)
        shutil.copytree(src, dst)
        meta = json.load(open(dst + "/meta.json"))
        how = str(meta.get("how_to_run_demo", ""))
        res = {"property": pid, "n": n}
        w = tempfile.mkdtemp(prefix="verif-confirm-")
        wt = w + "/" + pid      # same basename the demo expects is irrelevant; paths are rewritten
        try:
            subprocess.check_call(["git", "-C", "/repo", "worktree", "add", "-q", "--detach", wt, "HEAD"])
            cmd = demo_cmd(how, "%s/%s.out/%s" % (SRC, pid, n), wt, dst)
            res["demo_cmd"] = cmd
            rc0, out0 = sh(cmd, cwd=wt)
            res["unpatched_rc"] = rc0
            res["unpatched_tail"] = out0[-600:]
            sh("git checkout -q -- . && git clean -fdq", cwd=wt)
            rc, out = sh("git apply %s/patch.diff" % dst, cwd=wt)
            res["applies"] = rc == 0
            rc, out = sh("go build ./...", cwd=wt)
            res["builds"] = rc == 0
            rc, out = sh("go test -vet=off -count=1 ./... 2>&1 | grep -E '^--- FAIL' | grep -v TestIOZero | wc -l", cwd=wt)
            res["suite_extra_failures"] = int(out.strip().split()[-1]) if out.strip() else -1
            rc1, out1 = sh(cmd, cwd=wt)
            res["patched_rc"] = rc1
            res["patched_tail"] = out1[-600:]
            passed0 = ("FAIL" not in out0) and bool(re.search(r"^(ok\s|PASS)", out0, re.M))
            failed1 = "FAIL" in out1
            res["unpatched_passes"], res["patched_fails"] = passed0, failed1
            res["confirmed"] = bool(res["applies"] and res["builds"] and res["suite_extra_failures"] == 0 and passed0 and failed1)
        except Exception as e:
            res["error"] = str(e)
            res["confirmed"] = False
        finally:
            subprocess.call(["git", "-C", "/repo", "worktree", "remove", "--force", wt])
            shutil.rmtree(w, ignore_errors=True)
        json.dump(res, open(dst + "/confirm.json", "w"), indent=1)
        print(pid, n, "confirmed" if res["confirmed"] else "NOT-CONFIRMED", {k: res.get(k) for k in ("applies", "builds", "suite_extra_failures", "unpatched_rc", "patched_rc")}, flush=True)
