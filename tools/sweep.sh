#!/bin/bash
# tools/sweep.sh <tier> <seed>... : every check at every seed; prints one line per run, non-zero exits are failures
cd "$(dirname "$0")/.."
TIER=$1; shift
fail=0
for seed in "$@"; do
  for p in C01 C02 C03 C04 C05 C06 C07 C08 C09 C10 C11 C12 C13 C14 C15 C16 C17 C18 C19 C20; do
    t0=$(date +%s)
    out=$(VERIF_SEED=$seed ./check $p $TIER 2>&1); rc=$?
    t1=$(date +%s)
    echo "seed=$seed $p rc=$rc $((t1-t0))s $(echo "$out" | grep -E '^SUMMARY' | cut -d' ' -f5-8)"
    if [ $rc -ne 0 ]; then fail=1; echo "$out" | grep -E "^(VIOLATION|INCONCLUSIVE|  key=|  what=)" | head -12 | cut -c1-400; fi
  done
done
echo "SWEEP-DONE fail=$fail"
