#!/usr/bin/env python3
import json, sys, glob, jsonschema
m = json.load(open('/verif/MANIFEST.json'))
jsonschema.validate(m, json.load(open('/root/.vp/MANIFEST.schema.json')))
es = json.load(open('/root/.vp/EVIDENCE.schema.json'))
for c in m['checks']:
    try:
        jsonschema.validate(json.load(open(c['evidence_file'])), es)
    except Exception as e:
        print('EVIDENCE INVALID', c['property_id'], str(e)[:300])
print('manifest valid; checks', len(m['checks']))
