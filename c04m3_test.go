package sqlittle_test

// Demonstration for mutation 3 (C04): lookups of rowids which got deleted.
//
// Needs c04m3.sqlite (made by mkdb.py) in the same directory: table t had
// rowids 1..2000 with v = "value-<rowid>"; every rowid divisible by 5 was
// deleted afterwards.

import (
	"fmt"
	"testing"

	"github.com/alicebob/sqlittle"
)

func TestC04M3(t *testing.T) {
	db, err := sqlittle.Open("c04m3.sqlite")
	if err != nil {
		t.Fatal(err)
	}
	defer db.Close()

	present := func(id int64) bool {
		return id >= 1 && id <= 2000 && id%5 != 0
	}

	// the full scan is the reference
	scanned := map[int64]string{}
	if err := db.Select("t", func(r sqlittle.Row) {
		var id int64
		var v string
		if err := r.Scan(&id, &v); err != nil {
			t.Fatal(err)
		}
		scanned[id] = v
	}, "id", "v"); err != nil {
		t.Fatal(err)
	}
	if len(scanned) != 1600 {
		t.Fatalf("scan: %d rows, want 1600", len(scanned))
	}

	for id := int64(-1); id <= 2002; id++ {
		row, err := db.SelectRowid("t", id, "id", "v")
		if err != nil {
			t.Errorf("SelectRowid(%d): %s", id, err)
			continue
		}
		n := 0
		if err := db.PKSelect("t", sqlittle.Key{id}, func(sqlittle.Row) { n++ }, "v"); err != nil {
			t.Errorf("PKSelect(%d): %s", id, err)
		}
		if _, ok := scanned[id]; ok != present(id) {
			t.Errorf("scan: rowid %d present: %t", id, ok)
		}
		if !present(id) {
			if row != nil {
				t.Errorf("SelectRowid(%d): deleted/absent rowid gives row %v", id, row)
			}
			if n != 0 {
				t.Errorf("PKSelect(%d): deleted/absent rowid gives %d rows", id, n)
			}
			continue
		}
		if row == nil {
			t.Errorf("SelectRowid(%d): present rowid not found", id)
			continue
		}
		var gotID int64
		var gotV string
		if err := row.Scan(&gotID, &gotV); err != nil {
			t.Fatal(err)
		}
		if want := fmt.Sprintf("value-%d", id); gotID != id || gotV != want || gotV != scanned[id] {
			t.Errorf("SelectRowid(%d): got (%d, %q)", id, gotID, gotV)
		}
		if n != 1 {
			t.Errorf("PKSelect(%d): %d rows", id, n)
		}
	}
}
