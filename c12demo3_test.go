//go:build verif
// +build verif

package sqlittle_test

// Demo for C12 mutation 3: a rowid lookup in a table b-tree with interior
// pages reports "no such row" when the overflow page of the row can't be read.

import (
	"errors"
	"fmt"
	"os"
	"testing"

	"github.com/alicebob/sqlittle"
	sdb "github.com/alicebob/sqlittle/db"
)

var errC12Demo3Fault = errors.New("injected read fault")

type c12d3Pager struct {
	data   []byte
	reads  int
	failAt int
}

func (p *c12d3Pager) Page(n int, pagesize int) ([]byte, error) {
	p.reads++
	if p.failAt > 0 && p.reads == p.failAt {
		return nil, errC12Demo3Fault
	}
	off := (n - 1) * pagesize
	if n < 1 || off+pagesize > len(p.data) {
		return nil, fmt.Errorf("page %d out of range", n)
	}
	buf := make([]byte, pagesize)
	copy(buf, p.data[off:])
	return buf, nil
}
func (p *c12d3Pager) Close() error                     { return nil }
func (p *c12d3Pager) RLock() error                     { return nil }
func (p *c12d3Pager) RUnlock() error                   { return nil }
func (p *c12d3Pager) CheckReservedLock() (bool, error) { return false, nil }

type c12d3Op func(db *sqlittle.DB) ([]string, error)

func c12d3Run(t *testing.T, data []byte, failAt int, op c12d3Op) ([]string, int, error) {
	p := &c12d3Pager{data: data}
	low, err := sdb.VerifOpenPager(p, "")
	if err != nil {
		t.Fatal(err)
	}
	db := sqlittle.VerifWrap(low)
	p.reads = 0
	p.failAt = failAt
	rows, err := op(db)
	return rows, p.reads, err
}

func TestC12Demo3(t *testing.T) {
	data, err := os.ReadFile("testdata/c12demo3.sqlite")
	if err != nil {
		t.Fatal(err)
	}

	for _, rowid := range []int64{1, 17, 40} {
		rowid := rowid
		ops := map[string]c12d3Op{
			fmt.Sprintf("SelectRowid(%d)", rowid): func(db *sqlittle.DB) ([]string, error) {
				row, err := db.SelectRowid("t", rowid, "name", "body")
				if row == nil {
					return nil, err
				}
				return []string{fmt.Sprint(row.ScanStrings())}, err
			},
			fmt.Sprintf("PKSelect(%d)", rowid): func(db *sqlittle.DB) ([]string, error) {
				var rows []string
				err := db.PKSelect("t", sqlittle.Key{rowid}, func(r sqlittle.Row) {
					rows = append(rows, fmt.Sprint(r.ScanStrings()))
				}, "name", "body")
				return rows, err
			},
		}
		for name, op := range ops {
			want, n, err := c12d3Run(t, data, 0, op)
			if err != nil || len(want) != 1 {
				t.Fatalf("%s: fault free run: %d rows, err %v", name, len(want), err)
			}
			for k := 1; k <= n; k++ {
				have, _, err := c12d3Run(t, data, k, op)
				if err == nil {
					t.Errorf("%s: fault at read %d/%d: no error reported, %d rows (want %d)", name, k, n, len(have), len(want))
					continue
				}
				if len(have) > 1 || (len(have) == 1 && have[0] != want[0]) {
					t.Errorf("%s: fault at read %d/%d: wrong row delivered", name, k, n)
				}
			}
		}
	}
}
