package sqlittle_test

// C18 demo 1: a []byte obtained from Row.Scan must be a private copy. Scribbling
// over it may never change what a later read of the same database returns.
//
// demo1.sqlite: CREATE TABLE t (id integer primary key, name text, data blob),
// 5 rows, data = 8 x byte(0x40+id). The blob is the LAST column, and row 1 was
// inserted first, so its cell sits at the very end of the leaf page.

import (
	"bytes"
	"os"
	"testing"

	"github.com/alicebob/sqlittle"
)

func demo1DB() string {
	if f := os.Getenv("C18_DEMO_DB"); f != "" {
		return f
	}
	return "demo1.sqlite"
}

func readAll(t *testing.T, db *sqlittle.DB) map[int64][]byte {
	t.Helper()
	res := map[int64][]byte{}
	err := db.Select("t", func(r sqlittle.Row) {
		var id int64
		var data []byte
		if err := r.Scan(&id, &data); err != nil {
			t.Fatal(err)
		}
		res[id] = data
	}, "id", "data")
	if err != nil {
		t.Fatal(err)
	}
	return res
}

func TestC18Demo1(t *testing.T) {
	db, err := sqlittle.Open(demo1DB())
	if err != nil {
		t.Fatal(err)
	}
	defer db.Close()

	first := readAll(t, db)
	if len(first) != 5 {
		t.Fatalf("expected 5 rows, got %d", len(first))
	}
	for id, data := range first {
		want := bytes.Repeat([]byte{byte(0x40 + id)}, 8)
		if !bytes.Equal(data, want) {
			t.Fatalf("first read, row %d: have %q, want %q", id, data, want)
		}
		// the caller owns the scanned slice: scribble over it
		for i := range data {
			data[i] = '!'
		}
	}

	// same handle, file unchanged: every later read must still see the
	// stored bytes
	second := readAll(t, db)
	for id := int64(1); id <= 5; id++ {
		want := bytes.Repeat([]byte{byte(0x40 + id)}, 8)
		if have := second[id]; !bytes.Equal(have, want) {
			t.Errorf("re-read after mutating the scanned slices, row %d: have %q, want %q", id, have, want)
		}
	}

	// also via the rowid lookup
	row, err := db.SelectRowid("t", 1, "data")
	if err != nil {
		t.Fatal(err)
	}
	var data []byte
	if err := row.Scan(&data); err != nil {
		t.Fatal(err)
	}
	if want := bytes.Repeat([]byte{0x41}, 8); !bytes.Equal(data, want) {
		t.Errorf("SelectRowid(1) after mutating the scanned slices: have %q, want %q", data, want)
	}
}
