package sqlittle_test

// Demonstration for C09 mutation 3: a handle is opened on a clean database.
// Then a writer adds a column to table t, continues with a big update that
// makes SQLite spill dirty pages (among them the sqlite_master leaf page with
// t's new definition) into the database file, and is killed before commit.
// Asking the old handle for the columns of t has to fail (hot journal), or
// must give the columns SQLite reports after recovery: a, b.

import (
	"os"
	"os/exec"
	"path/filepath"
	"reflect"
	"testing"

	"github.com/alicebob/sqlittle"
)

const mut3Setup = `
import sqlite3, sys
f = sys.argv[1]
c = sqlite3.connect(f, isolation_level=None)
c.execute("PRAGMA page_size=512")
c.execute("PRAGMA journal_mode=DELETE")
# enough tables to push sqlite_master off page 1 onto leaf pages
for i in range(60):
    c.execute("CREATE TABLE filler%d (id INTEGER PRIMARY KEY, some_column TEXT, another_column INTEGER)" % i)
c.execute("CREATE TABLE t (a INTEGER PRIMARY KEY, b TEXT)")
c.execute("CREATE TABLE bulk (id INTEGER PRIMARY KEY, v INTEGER, pad TEXT)")
c.execute("BEGIN")
for i in range(1, 11):
    c.execute("INSERT INTO t VALUES (?, ?)", (i, "row %d" % i))
for i in range(1, 2001):
    c.execute("INSERT INTO bulk VALUES (?, 0, ?)", (i, "x" * 100))
c.execute("COMMIT")
c.close()
`

const mut3Crash = `
import sqlite3, sys, os
f = sys.argv[1]
c = sqlite3.connect(f, isolation_level=None)
c.execute("PRAGMA cache_size=5")
c.execute("BEGIN")
c.execute("ALTER TABLE t ADD COLUMN phantom TEXT")
c.execute("UPDATE bulk SET v = 1")
os._exit(0)
`

const mut3Recover = `
import sqlite3, sys
c = sqlite3.connect(sys.argv[1], isolation_level=None)
print(",".join(r[1] for r in c.execute("PRAGMA table_info(t)")))
`

func TestC09Mut3ColumnsAfterCrash(t *testing.T) {
	dir := t.TempDir()
	file := filepath.Join(dir, "schema.sqlite")
	if out, err := exec.Command("python3", "-c", mut3Setup, file).CombinedOutput(); err != nil {
		t.Fatalf("setup: %s: %s", err, out)
	}

	db, err := sqlittle.Open(file)
	if err != nil {
		t.Fatalf("open of a clean database: %v", err)
	}
	defer db.Close()

	if out, err := exec.Command("python3", "-c", mut3Crash, file).CombinedOutput(); err != nil {
		t.Fatalf("crash: %s: %s", err, out)
	}
	if st, err := os.Stat(file + "-journal"); err != nil || st.Size() == 0 {
		t.Fatalf("setup problem: no journal left behind: %v", err)
	}

	want := []string{"a", "b"}
	cols, err := db.Columns("t")
	if err != nil {
		t.Logf("Columns refused: %v (fine)", err)
		return
	}
	if !reflect.DeepEqual(cols, want) {
		// let real SQLite roll the transaction back, and look again
		out, rerr := exec.Command("python3", "-c", mut3Recover, file).Output()
		cols2, err2 := db.Columns("t")
		t.Logf("after recovery SQLite says %q (%v); sqlittle says %v (%v)", out, rerr, cols2, err2)
		t.Fatalf("read the crashed writer's unfinished ALTER TABLE, no error: columns %v, want %v", cols, want)
	}
	t.Fatalf("hot journal was ignored (no error from Columns)")
}
