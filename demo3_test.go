package sqlittle_test

// C18 demo 3: a TEXT value scans to a string / []byte with exactly the stored
// bytes. SQLite does not validate text, so TEXT columns can (and in the wild
// do: latin-1 data, truncated multi byte sequences) hold bytes which are not
// valid UTF-8; SQLite itself hands those out unchanged.
//
// demo3.sqlite: CREATE TABLE words (id integer primary key, w text), the
// values below inserted with CAST(? AS TEXT).

import (
	"bytes"
	"os"
	"testing"

	"github.com/alicebob/sqlittle"
)

func demo3DB() string {
	if f := os.Getenv("C18_DEMO_DB"); f != "" {
		return f
	}
	return "demo3.sqlite"
}

func TestC18Demo3(t *testing.T) {
	want := [][]byte{
		[]byte("plain ascii"),
		[]byte("café €"),  // valid UTF-8
		[]byte("caf\xe9"), // latin-1
		[]byte("\xff"),
		[]byte("euro \xe2\x82"), // truncated 3 byte sequence
		[]byte("a\xc0\xafb"),    // overlong encoding
		[]byte("12"),
	}

	db, err := sqlittle.Open(demo3DB())
	if err != nil {
		t.Fatal(err)
	}
	defer db.Close()

	n := 0
	err = db.Select("words", func(r sqlittle.Row) {
		var (
			id int64
			s  string
			b  []byte
		)
		if err := r.Scan(&id, &s); err != nil {
			t.Fatal(err)
		}
		if err := r.Scan(nil, &b); err != nil {
			t.Fatal(err)
		}
		w := want[id-1]
		if s != string(w) {
			t.Errorf("id %d: string: have %q (% x), want %q (% x)", id, s, s, w, w)
		}
		if !bytes.Equal(b, w) {
			t.Errorf("id %d: []byte: have % x, want % x", id, b, w)
		}
		if ss := r.ScanStrings(); ss[1] != string(w) {
			t.Errorf("id %d: ScanStrings: have %q, want %q", id, ss[1], w)
		}
		n++
	}, "id", "w")
	if err != nil {
		t.Fatal(err)
	}
	if n != len(want) {
		t.Fatalf("have %d rows, want %d", n, len(want))
	}
}
