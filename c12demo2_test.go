//go:build verif
// +build verif

package sqlittle_test

// Demo for C12 mutation 2: after one refused read lock, the next operation on
// the same handle doesn't take the lock at all and reports success.

import (
	"errors"
	"fmt"
	"os"
	"testing"

	"github.com/alicebob/sqlittle"
	sdb "github.com/alicebob/sqlittle/db"
)

var errC12Demo2Busy = errors.New("resource temporarily unavailable")

// c12d2Pager serves pages from memory. While `busy` is set the read lock is
// refused, the way the file pager refuses it while a writer holds a PENDING or
// EXCLUSIVE lock.
type c12d2Pager struct {
	data     []byte
	busy     bool
	locked   bool
	unlocked int // page reads done without holding the lock
}

func (p *c12d2Pager) Page(n int, pagesize int) ([]byte, error) {
	if !p.locked {
		p.unlocked++
	}
	off := (n - 1) * pagesize
	if n < 1 || off+pagesize > len(p.data) {
		return nil, fmt.Errorf("page %d out of range", n)
	}
	buf := make([]byte, pagesize)
	copy(buf, p.data[off:])
	return buf, nil
}
func (p *c12d2Pager) Close() error { return nil }
func (p *c12d2Pager) RLock() error {
	if p.busy {
		return errC12Demo2Busy
	}
	p.locked = true
	return nil
}
func (p *c12d2Pager) RUnlock() error                   { p.locked = false; return nil }
func (p *c12d2Pager) CheckReservedLock() (bool, error) { return false, nil }

func TestC12Demo2(t *testing.T) {
	data, err := os.ReadFile("testdata/music.sqlite")
	if err != nil {
		t.Fatal(err)
	}
	p := &c12d2Pager{data: data}
	low, err := sdb.VerifOpenPager(p, "")
	if err != nil {
		t.Fatal(err)
	}
	db := sqlittle.VerifWrap(low)

	sel := func() (int, error) {
		n := 0
		err := db.Select("albums", func(sqlittle.Row) { n++ }, "name")
		return n, err
	}

	// all fine
	if n, err := sel(); err != nil || n != 2 {
		t.Fatalf("unlocked db: %d rows, err %v", n, err)
	}

	// A writer takes the database. Every operation has to fail as long as
	// it is there.
	p.busy = true
	p.unlocked = 0
	for i := 1; i <= 3; i++ {
		n, err := sel()
		if err == nil {
			t.Errorf("attempt %d on a busy database: no error, %d rows delivered, %d page reads without a lock", i, n, p.unlocked)
		}
	}

	// writer is gone
	p.busy = false
	if n, err := sel(); err != nil || n != 2 {
		t.Errorf("writer gone: %d rows, err %v", n, err)
	}
	if p.unlocked != 0 {
		t.Errorf("%d page reads without holding the read lock", p.unlocked)
	}
}
