#!/bin/bash
# Builds the native helpers from files on disk only (offline).
set -e
cd "$(dirname "$0")"
mkdir -p bin evidence
gcc -O2 -shared -fPIC -o bin/crashshim.so csrc/crashshim.c -ldl
gcc -O2 -o bin/mkformat csrc/mkformat.c -lsqlite3
export GOFLAGS=-mod=mod GOPROXY=off GOSUMDB=off GOTOOLCHAIN=local
(cd harness && go build -tags verif -o ../bin/vrun.setup ./cmd/vrun && rm -f ../bin/vrun.setup)
echo setup ok
