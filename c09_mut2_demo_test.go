package sqlittle_test

// Demonstration for C09 mutation 2: journal_mode=PERSIST, a long-lived reader.
//
//  1. a writer commits a big transaction T1; in PERSIST mode the journal stays
//     behind with a zeroed header.
//  2. the reader opens the database and reads it (all fine, journal is cold).
//  3. a writer starts a smaller transaction T2, spills dirty pages into the
//     database file and is killed. The journal has a fresh header, but since T2
//     journals fewer pages than T1 did the file is as long as it was before.
//  4. the reader reads again, with the handle from step 2. That has to fail
//     (hot journal), or at least must not show T2's values.

import (
	"os"
	"os/exec"
	"path/filepath"
	"testing"

	"github.com/alicebob/sqlittle"
)

const mut2Setup = `
import sqlite3, sys
f = sys.argv[1]
c = sqlite3.connect(f, isolation_level=None)
c.execute("PRAGMA page_size=1024")
c.execute("PRAGMA journal_mode=PERSIST")
c.execute("CREATE TABLE t (id INTEGER PRIMARY KEY, v INTEGER, pad TEXT)")
c.execute("BEGIN")
for i in range(1, 2001):
    c.execute("INSERT INTO t VALUES (?, 0, ?)", (i, "x" * 100))
c.execute("COMMIT")
# T1: touches every page of the table
c.execute("PRAGMA cache_size=5")
c.execute("BEGIN")
c.execute("UPDATE t SET v = 1")
c.execute("COMMIT")
c.close()
`

const mut2Crash = `
import sqlite3, sys, os
f = sys.argv[1]
c = sqlite3.connect(f, isolation_level=None)
c.execute("PRAGMA journal_mode=PERSIST")
c.execute("PRAGMA cache_size=5")
c.execute("BEGIN")
c.execute("UPDATE t SET v = 2 WHERE id <= 1000")
os._exit(0)
`

func mut2Read(t *testing.T, db *sqlittle.DB) (map[int64]int, error) {
	t.Helper()
	vals := map[int64]int{}
	err := db.Select("t", func(r sqlittle.Row) {
		var v int64
		if err := r.Scan(&v); err != nil {
			t.Fatal(err)
		}
		vals[v]++
	}, "v")
	return vals, err
}

func TestC09Mut2PersistSameSize(t *testing.T) {
	dir := t.TempDir()
	file := filepath.Join(dir, "persist.sqlite")
	if out, err := exec.Command("python3", "-c", mut2Setup, file).CombinedOutput(); err != nil {
		t.Fatalf("setup: %s: %s", err, out)
	}
	st1, err := os.Stat(file + "-journal")
	if err != nil || st1.Size() == 0 {
		t.Fatalf("setup problem: no persisted journal: %v", err)
	}

	db, err := sqlittle.Open(file)
	if err != nil {
		t.Fatalf("open of a clean PERSIST database: %v", err)
	}
	defer db.Close()
	vals, err := mut2Read(t, db)
	if err != nil || vals[1] != 2000 || len(vals) != 1 {
		t.Fatalf("read of a clean PERSIST database: %v %v", vals, err)
	}

	if out, err := exec.Command("python3", "-c", mut2Crash, file).CombinedOutput(); err != nil {
		t.Fatalf("crash: %s: %s", err, out)
	}
	st2, err := os.Stat(file + "-journal")
	if err != nil {
		t.Fatal(err)
	}
	t.Logf("journal size after T1: %d, after crashed T2: %d", st1.Size(), st2.Size())

	vals, err = mut2Read(t, db)
	if err != nil {
		t.Logf("Select refused: %v (fine)", err)
		return
	}
	// SQLite's recovery rolls T2 back: 2000 rows with v=1
	if vals[1] != 2000 || len(vals) != 1 {
		t.Fatalf("read the crashed writer's unfinished transaction, no error: values seen %v, want only 2000 times 1", vals)
	}
	t.Fatalf("hot journal was ignored (no error from Select)")
}
