#!/bin/bash
# selftest/run.sh [name-filter]  — every catalogue mutant must (1) build, (2) pass the pinned suite, (3) be caught by its property's quick check.
cd "$(dirname "$0")/.."
python3 - "$@" <<'PY' 2>&1 | grep -v conda
import json, subprocess, sys
cat = json.load(open('selftest/catalogue.json'))
flt = sys.argv[1] if len(sys.argv) > 1 else ''
res = []
for m in cat:
    if flt and flt not in m['name']:
        continue
    out = subprocess.run(['tools/mutant.sh', 'selftest/patches/%s.diff' % m['name'], m['property']], capture_output=True, text=True).stdout
    suite = 'suite-ok' if 'existing-suite-extra-failures=0' in out else 'SUITE-FAILS'
    caught = 'CAUGHT' if ('rc=1' in out) else ('inconclusive' if 'rc=2' in out else 'MISSED')
    if 'DOES-NOT' in out:
        caught = out.strip().split('\n')[-1]
    keys = [l.strip() for l in out.split('\n') if 'key=' in l][:2]
    print('%-40s %-4s %-12s %-10s %s' % (m['name'], m['property'], suite, caught, ' | '.join(keys)[:150]), flush=True)
PY
