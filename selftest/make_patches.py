#!/usr/bin/env python3
"""Builds the self-test mutant catalogue: each entry is (name, property, file, old, new).
Patches are produced against /repo HEAD in a scratch worktree and written to selftest/patches/."""
import subprocess, os, sys, tempfile, shutil, json
M = [
 ("c01_drop_rightmost", "C01", "db/btree.go", "\t\t}\n\t}\n\treturn cb(l.rightmost)\n}\n\nfunc (l *tableInterior) cellIterMin", "\t\t}\n\t}\n\treturn false, nil\n}\n\nfunc (l *tableInterior) cellIterMin"),
 ("c01_x_off_by_one", "C01", "db/btree.go", "pl, err := parsePayload(l, c[n:], pageSize, pageSize-35)", "pl, err := parsePayload(l, c[n:], pageSize, pageSize-36)"),
 ("c14_twos24_sign", "C14", "db/bits.go", "if n&(1<<23) != 0 {\n\t\tn -= (1 << 24)", "if n&(1<<23) != 0 {\n\t\tn -= (1 << 23)"),
 ("c01_ignore_default", "C01", "sqlite.go", "row[i] = c.col.Default", "row[i] = nil"),
 ("c04_leaf_gt", "C04", "db/btree.go", "return l.cells[n].left >= rowid", "return l.cells[n].left > rowid"),
 ("c04_interior_gt", "C04", "db/btree.go", "return l.cells[n].key >= rowid", "return l.cells[n].key > rowid"),
 ("c06_no_unlock_columns", "C06", "sqlittle.go", "func (db *DB) Columns(table string) ([]string, error) {\n\tif err := db.db.RLock(); err != nil {\n\t\treturn nil, err\n\t}\n\tdefer db.db.RUnlock()\n", "func (db *DB) Columns(table string) ([]string, error) {\n\tif err := db.db.RLock(); err != nil {\n\t\treturn nil, err\n\t}\n"),
 ("c06_lock_one_byte", "C06", "db/pager_unix.go", "\t\tStart:  sqliteSharedFirst,\n\t\tLen:    sqliteSharedSize,", "\t\tStart:  sqliteSharedFirst,\n\t\tLen:    1,"),
 ("c07_skip_pending", "C07", "db/pager_unix.go", "\tif err := f.lock(pending); err != nil {\n\t\treturn err\n\t}\n", "\tf.lock(pending)\n"),
 ("c07_reserved_false", "C07", "db/pager_unix.go", "\treturn lock.Type != unix.F_UNLCK, err", "\treturn false, err"),
 ("c08_not_dirty", "C08", "db/database.go", "func (db *Database) RLock() error {\n\tdb.dirty = true\n", "func (db *Database) RLock() error {\n"),
 ("c08_keep_btree_cache", "C08", "db/database.go", "\t\tdb.btreeCache.clear()\n", "\t\t_ = db.btreeCache\n"),
 ("c08_keep_object_cache", "C08", "db/database.go", "\t\tdb.objectCache = nil\n", "\t\t_ = db.objectCache\n"),
 ("c09_never_hot", "C09", "db/journal.go", "\tif jh.Magic != journalMagic {\n\t\treturn false, nil\n\t}", "\tif jh.Magic != journalMagic || jh.SectorSize != 512 {\n\t\treturn false, nil\n\t}"),
 ("c12_swallow_open_error", "C12", "db/btree.go", "\treturn l.cellIter(db, func(p int) (bool, error) {\n\t\tpage, err := db.openTable(p)\n\t\tif err != nil {\n\t\t\treturn false, err\n\t\t}\n\t\tif done, err := page.Iter(r-1, db, cb)", "\treturn l.cellIter(db, func(p int) (bool, error) {\n\t\tpage, err := db.openTable(p)\n\t\tif err != nil {\n\t\t\treturn false, nil\n\t\t}\n\t\tif done, err := page.Iter(r-1, db, cb)"),
 ("c13_useiter_true", "C13", "db/btree.go", "\tuseIter := false\n", "\tuseIter := len(l.cells) > 40\n"),
 ("c14_m_64", "C14", "db/btree.go", "m := ((u - 12) * 32 / 255) - 23", "m := ((u - 12) * 64 / 255) - 23"),
 ("c14_twos48_sign", "C14", "db/bits.go", "if n&(1<<47) != 0 {", "if n&(1<<46) != 0 {"),
 ("c15_no_reserved_check", "C15", "db/database.go", "\tif int(hs.ReservedSpace) != 0 {\n\t\treturn h, ErrReservedSpace\n\t}\n", ""),
 ("c15_header_cached_when_counter_same", "C15", "db/database.go", "\tnewHeader, err := parseHeader(buf)\n\tif err != nil {\n\t\treturn err\n\t}", "\tnewHeader, err := parseHeader(buf)\n\tif err != nil {\n\t\tif db.header != nil {\n\t\t\tdb.dirty = false\n\t\t\treturn nil\n\t\t}\n\t\treturn err\n\t}"),
 ("c17_ignore_done_index_interior", "C17", "db/btree.go", "\t\tif done, err := page.Iter(r-1, db, cb); done || err != nil {\n\t\t\treturn done, err\n\t\t}\n\n\t\t// the btree node also has a record", "\t\tif _, err := page.Iter(r-1, db, cb); err != nil {\n\t\t\treturn false, err\n\t\t}\n\n\t\t// the btree node also has a record"),
 ("c19_close_no_wait", "C19", "driver/driver.go", "\tr.cancel()\n\tr.wg.Wait()\n\tatomic.StoreInt32(r.busy, 0)\n\treturn r.err", "\tr.cancel()\n\tatomic.StoreInt32(r.busy, 0)\n\treturn nil"),
 ("c19_star_sorted", "C19", "driver/driver.go", "\t\t\tcols = append(cols, allCols...)\n", "\t\t\tsorted := append([]string{}, allCols...)\n\t\t\tsort.Strings(sorted)\n\t\t\tcols = append(cols, sorted...)\n"),
 ("c11_nocase_unicode", "C11", "db/cmp.go", "\t\t\tif c >= 'A' && c <= 'Z' {\n\t\t\t\treturn int(c) + 'a' - 'A'\n\t\t\t}", "\t\t\tif c >= 'A' && c <= 'Z' || c >= 0xc0 && c <= 0xde {\n\t\t\t\treturn int(c) + 'a' - 'A'\n\t\t\t}"),
 ("c03_equals_ignores_collate", "C03", "db/cmp.go", "\t\tif compare(k.V, r[i], CollateFuncs[coll]) != 0 {\n\t\t\treturn false", "\t\tif compare(k.V, r[i], CollateFuncs[DefaultCollate]) != 0 {\n\t\t\t_ = coll\n\t\t\treturn false"),
 ("c18_string_unsafe", "C18", "db/record.go", "\t\t\t\tres = append(res, string(p))", "\t\t\t\tres = append(res, *(*string)(unsafe.Pointer(&p)))"),
 ("c02_skip_interior_record", "C02", "db/btree.go", "\t\tif done, err := cb(rec); done || err != nil {\n\t\t\treturn done, err\n\t\t}\n\t}\n\n\tpage, err := db.openIndex(l.rightmost)\n\tif err != nil {\n\t\treturn false, err\n\t}\n\treturn page.Iter(r-1, db, cb)", "\t\tif len(l.cells) > 60 {\n\t\t\tcontinue\n\t\t}\n\t\tif done, err := cb(rec); done || err != nil {\n\t\t\treturn done, err\n\t\t}\n\t}\n\n\tpage, err := db.openIndex(l.rightmost)\n\tif err != nil {\n\t\treturn false, err\n\t}\n\treturn page.Iter(r-1, db, cb)"),
 ("c05_no_recursion_limit", "C05", "db/btree.go", "func (l *tableInterior) Iter(r int, db *Database, cb iterCB) (bool, error) {\n\tif r == 0 {\n\t\treturn false, ErrRecursion\n\t}", "func (l *tableInterior) Iter(r int, db *Database, cb iterCB) (bool, error) {"),
 ("c05_no_cellptr_check", "C05", "db/btree.go", "\t\tif start > maxLen {\n\t\t\treturn nil, errors.New(\"invalid cell pointer\")\n\t\t}\n", ""),
 ("c16_global_scratch", "C16", "sql/tokenizer.go", "func tokenize(s string) ([]token, error) {\n\tvar res []token", "var tokScratch []token\n\nfunc tokenize(s string) ([]token, error) {\n\tres := tokScratch[:0]\n\tdefer func() { tokScratch = res }()"),
 ("c10_autoindex_misplaced", "C10", "db/schema.go", "\t\t\tname := fmt.Sprintf(\"sqlite_autoindex_%s_%d\", st.Table, autoindex)\n\t\t\tif st.addIndex(false, name, st.toIndexColumns(c.IndexedColumns)) {\n\t\t\t\tautoindex++\n\t\t\t}", "\t\t\tname := fmt.Sprintf(\"sqlite_autoindex_%s_%d\", st.Table, autoindex)\n\t\t\tautoindex++\n\t\t\tst.addIndex(false, name, st.toIndexColumns(c.IndexedColumns))"),
 ("c20_global_cache", "C20", "db/cmp.go", "func Search(key Key, r Record) bool {\n", "var lastSearchLen int\n\nfunc Search(key Key, r Record) bool {\n\tlastSearchLen = len(r)\n"),
]
extra_imports = {"c19_star_sorted": ("driver/driver.go", "\t\"io\"\n", "\t\"io\"\n\t\"sort\"\n"), "c18_string_unsafe": ("db/record.go", "\t\"math\"\n", "\t\"math\"\n\t\"unsafe\"\n")}
out = os.path.join(os.path.dirname(os.path.abspath(__file__)), "patches")
w = tempfile.mkdtemp(prefix="verif-selftest-")
subprocess.check_call(["git", "-C", "/repo", "worktree", "add", "-q", "--detach", w + "/s", "HEAD"])
cat = []
try:
    for name, prop, f, old, new in M:
        p = os.path.join(w, "s", f)
        s = open(p).read()
        if s.count(old) != 1:
            print("SKIP (anchor count %d): %s" % (s.count(old), name))
            continue
        s = s.replace(old, new)
        open(p, "w").write(s)
        if name in extra_imports:
            f2, o2, n2 = extra_imports[name]
            p2 = os.path.join(w, "s", f2)
            s2 = open(p2).read()
            assert s2.count(o2) == 1, name
            open(p2, "w").write(s2.replace(o2, n2))
        d = subprocess.check_output(["git", "-C", w + "/s", "diff"]).decode()
        open(os.path.join(out, name + ".diff"), "w").write(d)
        subprocess.check_call(["git", "-C", w + "/s", "checkout", "-q", "--", "."])
        cat.append({"name": name, "property": prop, "file": f})
finally:
    subprocess.call(["git", "-C", "/repo", "worktree", "remove", "--force", w + "/s"])
    shutil.rmtree(w, ignore_errors=True)
json.dump(cat, open(os.path.join(os.path.dirname(out), "catalogue.json"), "w"), indent=1)
print("patches:", len(cat))
